package rules

import (
	"fmt"
	"go/ast"
	"go/constant"
	"go/token"
	"go/types"
	"sort"
	"strconv"
	"strings"
	"unicode/utf8"

	"golang.org/x/tools/go/packages"
	"golang.org/x/tools/go/ssa"

	"ogenverif/internal/core"
)

func init() {
	register(&Property{
		ID: "C05",
		Meta: core.Meta{
			Level: "other",
			Explanation: "Path properties of the generated matcher for every request, per expansion (S2: router.tmpl expanded by cmd/ogen built from the current tree over the fixture specs; verdicts are static rules over the expanded code): " +
				"(R05.1) every value stored into args[k] is slash-free: it is elem[:idx] with idx = IndexByte(elem, '/') (or IndexAny with '/' in the set), or the whole elem guarded by IndexByte(elem,'/') < 0; " +
				"(R05.2) ServeHTTP and FindPath contain the same decision tree (static prefixes, head bytes, parameter indices and delimiters, leaf method → operation/arity), compared as normalised token streams; " +
				"(R05.3) static children are tried before the parameter child and every exit from a static case that consumed part of elem restores it (origElem) before the parameter child sees it; " +
				"(R05.4) the Allow string of every 405 is exactly the comma-join of that leaf's method cases and the default arm does nothing else; " +
				"(R05.5) on every path ServeHTTP performs exactly one of {handle<Op>Request, notAllowed, notFound}; " +
				"(R05.6) each handler call passes args[0..n) in order with n the arity of its array type, and both functions match on the normalised RawPath after cutPrefix. " +
				"NOT decided: radix-tree construction (addRoute splitting) for route sets outside the fixture corpus; 'static beats templated' beyond the ordering/restore rule.",
			Assumptions: []string{"S2 quantifies over the fixture corpus; the generated router has the regular statement shapes of router.tmpl (any other shape is reported as undecided)"},
			TrustedBase: []string{"cmd/ogen as macro-expander (build step)"},
		},
		Run: runC05,
	})
}

func findMethod(pkg *packages.Package, recv, name string) *ast.FuncDecl {
	return methodDecl(pkg, recv, name)
}

func runC05(c *core.Ctx) error {
	ex, err := c.Expand(fixtureNames(c))
	if err != nil {
		return err
	}
	r1 := c.NewRule("R05.1", "S2", "captured path arguments are slash-free", 10)
	r2 := c.NewRule("R05.2", "S2", "ServeHTTP and FindPath contain the same decision tree", 6)
	r3 := c.NewRule("R05.3", "S2", "static before parameter; consumed input restored before the parameter child", 6)
	r4 := c.NewRule("R05.4", "S2", "405 Allow lists exactly the leaf's methods", 20)
	r5 := c.NewRule("R05.5", "S2", "exactly one of handler / notAllowed / notFound on every path of ServeHTTP", 6)
	r6 := c.NewRule("R05.6", "S2", "handler calls pass args[0..n) in order; matching runs on the normalised, prefix-cut path", 20)
	r1.Note("fixtures: %v", ex.FixtureNames())

	r7 := c.NewRule("R05.7", "S1", "route-tree construction: Tails lists every static child; a split always cuts the existing node's prefix at the first differing byte", 3)
	checkRouteTreeS1(c, r7)
	for _, fx := range ex.Fixtures {
		pkg := ex.Prog.PkgBy[fx.PkgPath]
		for _, recv := range []string{"Server", "WebhookHandler"} {
			sh := findMethod(pkg, recv, "ServeHTTP")
			fp := findMethod(pkg, recv, "FindPath")
			if sh == nil || fp == nil {
				continue
			}
			key := fx.Name + "/" + recv
			for _, fd := range []*ast.FuncDecl{sh, fp} {
				checkCaptures(c, r1, pkg, key+"."+fd.Name.Name, fd)
				checkRestore(c, r3, pkg, key+"."+fd.Name.Name, fd)
			}
			a, ua := routerTokens(pkg, sh, true)
			b, ub := routerTokens(pkg, fp, false)
			for _, u := range append(ua, ub...) {
				r2.Undecided(key+":shape", c.Pos(u.Pos()), "statement shape not produced by router.tmpl as known: "+nodeString(pkg, u))
			}
			if len(ua)+len(ub) == 0 {
				if strings.Join(a, " ") == strings.Join(b, " ") {
					r2.Pass(fmt.Sprintf("%s: ServeHTTP and FindPath decision trees are identical (%d tokens)", key, len(a)))
				} else {
					i := 0
					for i < len(a) && i < len(b) && a[i] == b[i] {
						i++
					}
					ctx := func(t []string) string {
						lo, hi := i-3, i+3
						if lo < 0 {
							lo = 0
						}
						if hi > len(t) {
							hi = len(t)
						}
						return strings.Join(t[lo:hi], " ")
					}
					r2.Fail(key+":tree-mismatch", c.Pos(fp.Pos()), fmt.Sprintf("ServeHTTP and FindPath disagree at token %d: ServeHTTP has [… %s …], FindPath has [… %s …]: route lookup does not agree with serving", i, ctx(a), ctx(b)))
				}
			}
			checkAllow(c, r4, pkg, key, sh)
			checkArgsOrder(c, r6, pkg, key, sh)
			checkEntry(c, r6, pkg, key, sh, fp)
		}
		// R05.5 on SSA
		for _, recv := range []string{"Server", "WebhookHandler"} {
			fn := ex.Prog.Func(fx.PkgPath, recv+".ServeHTTP")
			if fn == nil || fn.Blocks == nil {
				continue
			}
			checkOneOutcome(c, r5, fx.Name+"/"+recv, fn)
			checkEntrySSA(c, r6, fx.Name+"/"+recv+".ServeHTTP", fn)
			if fp := ex.Prog.Func(fx.PkgPath, recv+".FindPath"); fp != nil && fp.Blocks != nil {
				checkEntrySSA(c, r6, fx.Name+"/"+recv+".FindPath", fp)
			}
		}
	}
	return nil
}

// checkEntrySSA: what is matched. (a) The string handed to cutPrefix is, on
// every path, either URL.Path (decoded by net/http) or the first result of
// uri.NormalizeEscapedPath; the raw RawPath never reaches the prefix comparison
// or the matcher un-normalised. (b) NormalizeEscapedPath is applied to
// URL.RawPath itself. (c) Arguments are percent-decoded (url.PathUnescape) only
// under the test that the matched text was the escaped RawPath — decoding
// arguments taken from the already decoded URL.Path decodes them twice.
func checkEntrySSA(c *core.Ctx, r *core.Rule, key string, fn *ssa.Function) {
	fieldLoad := func(v ssa.Value) string {
		ld, ok := v.(*ssa.UnOp)
		if !ok || ld.Op != token.MUL {
			return ""
		}
		fa, ok := ld.X.(*ssa.FieldAddr)
		if !ok {
			return ""
		}
		return fieldName(fa.X.Type(), fa.Field)
	}
	var leaves func(v ssa.Value, seen map[ssa.Value]bool, out map[string]token.Pos)
	leaves = func(v ssa.Value, seen map[ssa.Value]bool, out map[string]token.Pos) {
		if seen[v] {
			return
		}
		seen[v] = true
		switch x := v.(type) {
		case *ssa.Phi:
			for _, e := range x.Edges {
				leaves(e, seen, out)
			}
		case *ssa.Extract:
			if call, ok := x.Tuple.(*ssa.Call); ok {
				name := core.CalleeName(call.Common())
				if strings.HasSuffix(name, "uri.NormalizeEscapedPath") && x.Index == 0 {
					out["normalized"] = x.Pos()
					return
				}
				if strings.HasSuffix(name, ".cutPrefix") && x.Index == 0 {
					leaves(call.Common().Args[len(call.Common().Args)-1], seen, out)
					return
				}
			}
			out["other:"+x.String()] = x.Pos()
		case *ssa.UnOp:
			if f := fieldLoad(x); f != "" {
				out["field:"+f] = x.Pos()
				return
			}
			if al, ok := x.X.(*ssa.Alloc); ok && x.Op == token.MUL {
				for _, ref := range *al.Referrers() {
					if st, ok := ref.(*ssa.Store); ok && st.Addr == ssa.Value(al) {
						leaves(st.Val, seen, out)
					}
				}
				return
			}
			out["other:"+x.String()] = x.Pos()
		default:
			out["other:"+v.String()] = v.Pos()
		}
	}
	nCut, nNorm := 0, 0
	for _, f := range core.AllFuncs(fn) {
		for _, call := range core.Calls(f) {
			name := core.CalleeName(call.Common())
			args := call.Common().Args
			switch {
			case strings.HasSuffix(name, ".cutPrefix"):
				nCut++
				out := map[string]token.Pos{}
				leaves(args[len(args)-1], map[ssa.Value]bool{}, out)
				var bad []string
				for k := range out {
					if k != "normalized" && k != "field:Path" {
						bad = append(bad, strings.TrimPrefix(strings.TrimPrefix(k, "field:"), "other:"))
					}
				}
				sort.Strings(bad)
				// URL.Path is the decoded path. The matcher's static text is the normalised *escaped* template
				// (a space in a template is matched as "%20"), so the decoded path may feed it only when no
				// static text contains an escape.
				if _, viaPath := out["field:Path"]; viaPath && len(bad) == 0 {
					var esc []string
					seenK := map[string]bool{}
					for _, g := range core.AllFuncs(fn) {
						for _, b := range g.Blocks {
							for _, in := range b.Instrs {
								var ops []*ssa.Value
								for _, op := range in.Operands(ops) {
									if k, ok := (*op).(*ssa.Const); ok && k.Value != nil && k.Value.Kind() == constant.String {
										if sv := constant.StringVal(k.Value); strings.Contains(sv, "%") && strings.HasPrefix(sv, "/") || strings.Contains(sv, "%") && len(sv) > 2 && !strings.ContainsAny(sv, " :") {
											if !seenK[sv] {
												seenK[sv] = true
												esc = append(esc, strconv.Quote(sv))
											}
										}
									}
								}
							}
						}
					}
					sort.Strings(esc)
					if len(esc) > 0 {
						r.Fail("decoded-path-vs-escaped-static", c.Pos(call.Pos()), fmt.Sprintf("%s: when URL.RawPath is empty the decoded URL.Path is matched against static text that contains escapes (%s): the canonical spelling of such a path (which net/url stores with an empty RawPath) is answered 404 while a needlessly escaped spelling matches", key, strings.Join(esc, ", ")))
						continue
					}
				}
				if len(bad) == 0 {
					r.Pass(key + ": cutPrefix receives URL.Path or the normalised RawPath")
				} else {
					r.Fail(key+":cutPrefix-input", c.Pos(call.Pos()), fmt.Sprintf("the configured prefix is compared with %s, which is neither URL.Path nor the output of NormalizeEscapedPath: an equivalent spelling of the prefix (needless escape, lower-case hex) is not found", strings.Join(bad, ", ")))
				}
			case strings.HasSuffix(name, "uri.NormalizeEscapedPath"):
				nNorm++
				out := map[string]token.Pos{}
				leaves(args[0], map[ssa.Value]bool{}, out)
				if len(out) == 1 {
					if _, ok := out["field:RawPath"]; ok {
						r.Pass(key + ": NormalizeEscapedPath is applied to URL.RawPath")
						continue
					}
				}
				var got []string
				for k := range out {
					got = append(got, k)
				}
				sort.Strings(got)
				r.Fail(key+":normalize-input", c.Pos(call.Pos()), fmt.Sprintf("NormalizeEscapedPath is applied to %v, not to URL.RawPath as a whole", got))
			case name == "net/url.PathUnescape":
				// must be control-dependent on a test derived from RawPath != "" / the escaped flag
				guarded := false
				for _, b := range f.Blocks {
					iff, ok := b.Instrs[len(b.Instrs)-1].(*ssa.If)
					if !ok {
						continue
					}
					if !(b.Succs[0].Dominates(call.Block()) && len(b.Succs[0].Preds) == 1) {
						continue
					}
					if condMentionsRawPath(iff.Cond, 0) {
						guarded = true
					}
				}
				// a deferred closure registered under that test
				if !guarded && f.Parent() != nil {
					for _, b := range f.Parent().Blocks {
						for _, in := range b.Instrs {
							d, ok := in.(*ssa.Defer)
							if !ok || d.Common().StaticCallee() != f {
								continue
							}
							for _, tb := range f.Parent().Blocks {
								iff, ok := tb.Instrs[len(tb.Instrs)-1].(*ssa.If)
								if ok && tb.Succs[0].Dominates(b) && len(tb.Succs[0].Preds) == 1 && condMentionsRawPath(iff.Cond, 0) {
									guarded = true
								}
							}
						}
					}
				}
				if guarded {
					r.Pass(key + ": arguments are unescaped only when the escaped RawPath was matched")
				} else {
					r.Fail(key+":unescape-unconditional", c.Pos(call.Pos()), "arguments are percent-decoded although the matched text may be the already decoded URL.Path: a literal '%' in a value is decoded twice and the lookup disagrees with serving")
				}
			}
		}
	}
	// the "arguments are escaped" flag handed to the handlers may be true only where the matched text is the output of
	// NormalizeEscapedPath: every value the flag can take other than the constant false is computed under the ok edge of
	// that call (with an empty RawPath the text is the decoded URL.Path and a '%' in it is a literal)
	{
		var okBlocks []*ssa.BasicBlock
		for _, call := range core.Calls(fn) {
			if !strings.HasSuffix(core.CalleeName(call.Common()), "uri.NormalizeEscapedPath") {
				continue
			}
			if v, ok := call.(ssa.Value); ok && v.Referrers() != nil {
				for _, ref := range *v.Referrers() {
					if ex, ok := ref.(*ssa.Extract); ok && ex.Index == 1 {
						okBlocks = append(okBlocks, core.EdgeBlocks(ex, true)...)
					}
				}
			}
		}
		checked := map[ssa.Value]bool{}
		for _, f := range core.AllFuncs(fn) {
			for _, call := range core.Calls(f) {
				cal := call.Common().StaticCallee()
				if cal == nil || !strings.HasPrefix(cal.Name(), "handle") || !strings.HasSuffix(cal.Name(), "Request") {
					continue
				}
				for _, a := range call.Common().Args {
					if bt, ok := a.Type().Underlying().(*types.Basic); !ok || bt.Kind() != types.Bool || checked[a] {
						continue
					}
					checked[a] = true
					for _, leaf := range core.PhiClosure(a) {
						if k, ok := leaf.(*ssa.Const); ok && k.Value != nil && k.Value.Kind() == constant.Bool && !constant.BoolVal(k.Value) {
							continue
						}
						in, ok := leaf.(ssa.Instruction)
						under := false
						if ok {
							for _, ob := range okBlocks {
								if ob == in.Block() || ob.Dominates(in.Block()) {
									under = true
								}
							}
						}
						if under {
							r.Pass(key + ": the escaped flag is computed under the ok edge of NormalizeEscapedPath")
						} else {
							r.Fail(key+":escaped-flag", c.Pos(leaf.Pos()), "the \"arguments are escaped\" flag handed to the handlers can be true although the matched text is the decoded URL.Path (empty RawPath): a literal '%' in a path value (sent as %25) is percent-decoded a second time, \"50%2541\" arrives as \"50A\" and \"50%25\" is answered 400, while FindPath reports the right values")
						}
					}
				}
			}
		}
	}
	// the configured prefix is looked at in cutPrefix only: any other comparison with it sees text that cutPrefix's
	// input discipline (decoded path or normalised RawPath) does not cover
	for _, f := range core.AllFuncs(fn) {
		for _, b := range f.Blocks {
			for _, in := range b.Instrs {
				if fa, ok := in.(*ssa.FieldAddr); ok && fieldName(fa.X.Type(), fa.Field) == "Prefix" {
					r.Fail(key+":prefix-read-outside-cutPrefix", c.Pos(fa.Pos()), "the configured path prefix is read outside cutPrefix: a test against raw request text (URL.EscapedPath, RawPath) rejects equivalent spellings of the prefix before normalisation")
				}
			}
		}
	}
	if nCut == 0 || nNorm == 0 {
		r.Fail(key+":entry-ssa", c.Pos(fn.Pos()), fmt.Sprintf("no cutPrefix (%d) / NormalizeEscapedPath (%d) call found", nCut, nNorm))
	}
}

// condMentionsRawPath: the condition is (derived from) URL.RawPath != "" or the
// flag computed from the normalised path (strings.ContainsRune(elem, '%')).
func condMentionsRawPath(v ssa.Value, depth int) bool {
	if depth > 6 {
		return false
	}
	switch x := v.(type) {
	case *ssa.BinOp:
		return condMentionsRawPath(x.X, depth+1) || condMentionsRawPath(x.Y, depth+1)
	case *ssa.UnOp:
		if x.Op == token.MUL {
			if fa, ok := x.X.(*ssa.FieldAddr); ok {
				return fieldName(fa.X.Type(), fa.Field) == "RawPath"
			}
			if al, ok := x.X.(*ssa.Alloc); ok {
				for _, ref := range *al.Referrers() {
					if st, ok := ref.(*ssa.Store); ok && st.Addr == ssa.Value(al) && condMentionsRawPath(st.Val, depth+1) {
						return true
					}
				}
			}
			return false
		}
		return condMentionsRawPath(x.X, depth+1)
	case *ssa.Phi:
		for _, e := range x.Edges {
			if condMentionsRawPath(e, depth+1) {
				return true
			}
		}
	case *ssa.Call:
		if core.IsCallTo(x.Common(), "strings", "ContainsRune") {
			return true
		}
	}
	return false
}

func nodeString(pkg *packages.Package, n ast.Node) string {
	var sb strings.Builder
	switch x := n.(type) {
	case ast.Expr:
		return types.ExprString(x)
	case *ast.AssignStmt:
		for i, l := range x.Lhs {
			if i > 0 {
				sb.WriteString(", ")
			}
			sb.WriteString(types.ExprString(l))
		}
		sb.WriteString(" " + x.Tok.String() + " ")
		for i, r := range x.Rhs {
			if i > 0 {
				sb.WriteString(", ")
			}
			sb.WriteString(types.ExprString(r))
		}
		return sb.String()
	}
	return fmt.Sprintf("%T", n)
}

func isElem(x ast.Expr) bool {
	id, ok := x.(*ast.Ident)
	return ok && id.Name == "elem"
}

func constStr(pkg *packages.Package, x ast.Expr) (string, bool) {
	if v := pkg.TypesInfo.Types[x].Value; v != nil && v.Kind() == constant.String {
		return constant.StringVal(v), true
	}
	return "", false
}

func constChar(pkg *packages.Package, x ast.Expr) (rune, bool) {
	if v := pkg.TypesInfo.Types[x].Value; v != nil && v.Kind() == constant.Int {
		n, _ := constant.Int64Val(v)
		return rune(n), true
	}
	return 0, false
}

// delimiterBefore finds, in the statement list, the nearest preceding
// `idx := strings.IndexByte(elem, C)` / IndexAny before position i.
func delimiterBefore(pkg *packages.Package, list []ast.Stmt, i int) (chars string, found bool, guardNoSlash bool) {
	for j := i - 1; j >= 0; j-- {
		switch s := list[j].(type) {
		case *ast.AssignStmt:
			if len(s.Lhs) == 1 && types.ExprString(s.Lhs[0]) == "idx" && len(s.Rhs) == 1 {
				if ce, ok := s.Rhs[0].(*ast.CallExpr); ok && len(ce.Args) == 2 && isElem(ce.Args[0]) {
					switch types.ExprString(ce.Fun) {
					case "strings.IndexByte":
						if ch, ok := constChar(pkg, ce.Args[1]); ok {
							return string(ch), true, guardNoSlash
						}
					case "strings.IndexAny":
						if st, ok := constStr(pkg, ce.Args[1]); ok {
							return st, true, guardNoSlash
						}
					}
				}
				return "", false, false
			}
		case *ast.IfStmt:
			// if idx >= 0 { break }
			if types.ExprString(s.Cond) == "idx >= 0" && len(s.Body.List) == 1 {
				if br, ok := s.Body.List[0].(*ast.BranchStmt); ok && br.Tok == token.BREAK {
					guardNoSlash = true
				}
			}
		}
	}
	return "", false, false
}

// checkCaptures implements R05.1.
func checkCaptures(c *core.Ctx, r *core.Rule, pkg *packages.Package, key string, fd *ast.FuncDecl) {
	var walk func(list []ast.Stmt)
	visitBlocks := func(n ast.Node) {
		ast.Inspect(n, func(m ast.Node) bool {
			switch b := m.(type) {
			case *ast.BlockStmt:
				walk(b.List)
				return false
			case *ast.CaseClause:
				walk(b.Body)
				return false
			}
			return true
		})
	}
	walk = func(list []ast.Stmt) {
		for i, st := range list {
			as, ok := st.(*ast.AssignStmt)
			if ok && len(as.Lhs) == 1 && len(as.Rhs) == 1 {
				if ix, ok := as.Lhs[0].(*ast.IndexExpr); ok && types.ExprString(ix.X) == "args" {
					k := types.ExprString(ix.Index)
					chars, found, noSlash := delimiterBefore(pkg, list, i)
					rhs := types.ExprString(as.Rhs[0])
					switch {
					case !found:
						r.Undecided(key+":args["+k+"]", c.Pos(as.Pos()), "cannot find the delimiter search that bounds this capture")
					case rhs == "elem[:idx]" && strings.ContainsRune(chars, '/'):
						r.Pass(fmt.Sprintf("%s: args[%s] = elem[:idx], idx bounded by %q", key, k, chars))
					case rhs == "elem" && chars == "/" && noSlash:
						r.Pass(fmt.Sprintf("%s: args[%s] = elem, guarded by IndexByte(elem,'/') < 0", key, k))
					default:
						r.Fail("param-tail-delimiter-captures-slash", c.Pos(as.Pos()), fmt.Sprintf("%s: args[%s] = %s is bounded only by %q, not by '/': a request segment boundary inside the value is captured into the argument (e.g. {foo}=\"a/b\")", key, k, rhs, chars))
					}
					// strings.IndexAny works on runes: a tail set that is not valid UTF-8 (the first byte of a
					// multi-byte character next to another tail) is read as U+FFFD and never matches
					if found && len(chars) > 1 && !utf8.ValidString(chars) {
						r.Fail("param-tail-indexany-invalid-utf8", c.Pos(as.Pos()), fmt.Sprintf("%s: args[%s] is ended by strings.IndexAny(elem, %q): the set is not valid UTF-8, IndexAny reads the stray byte as U+FFFD and never finds it, so the template whose static text starts with that character after the parameter is unreachable (404)", key, k, chars))
					}
					// the bytes that end the parameter are exactly the first bytes of the static children matched next
					if found {
						var sw *ast.SwitchStmt
						for _, later := range list[i+1:] {
							if x, ok := later.(*ast.SwitchStmt); ok && x.Tag != nil && types.ExprString(x.Tag) == "elem[0]" {
								sw = x
								break
							}
						}
						heads := map[rune]bool{}
						if sw != nil {
							for _, cs := range sw.Body.List {
								for _, e := range cs.(*ast.CaseClause).List {
									if ch, ok := constChar(pkg, e); ok {
										heads[ch] = true
									}
								}
							}
						}
						tails := map[rune]bool{}
						if rhs == "elem[:idx]" {
							for i := 0; i < len(chars); i++ {
								tails[rune(chars[i])] = true // bytes: the switch below is over elem[0]
							}
						}
						var missing, extra []string
						for ch := range heads {
							if !tails[ch] {
								missing = append(missing, strconv.QuoteRune(ch))
							}
						}
						for ch := range tails {
							if !heads[ch] {
								extra = append(extra, strconv.QuoteRune(ch))
							}
						}
						sort.Strings(missing)
						sort.Strings(extra)
						if len(missing)+len(extra) == 0 {
							r.Pass(fmt.Sprintf("%s: args[%s] ends at exactly the first bytes of the following static children (%d)", key, k, len(heads)))
						} else {
							r.Fail("param-tail-set-mismatch", c.Pos(as.Pos()), fmt.Sprintf("%s: args[%s] is ended by %q but the static children matched after it start with %v (not a tail: %v; tail without child: %v): the value swallows a sibling's suffix and the more specific template is unreachable", key, k, chars, keysOf(heads), missing, extra))
						}
					}
				}
			}
			visitBlocks(st)
		}
	}
	walk(fd.Body.List)
}

// checkRestore implements R05.3.
func checkRestore(c *core.Ctx, r *core.Rule, pkg *packages.Package, key string, fd *ast.FuncDecl) {
	isParamCapture := func(st ast.Stmt) bool {
		as, ok := st.(*ast.AssignStmt)
		if !ok || len(as.Lhs) != 1 || len(as.Rhs) != 1 || types.ExprString(as.Lhs[0]) != "idx" {
			return false
		}
		ce, ok := as.Rhs[0].(*ast.CallExpr)
		return ok && strings.HasPrefix(types.ExprString(ce.Fun), "strings.Index")
	}
	isSwitchHead := func(st ast.Stmt) *ast.SwitchStmt {
		sw, ok := st.(*ast.SwitchStmt)
		if ok && sw.Tag != nil && types.ExprString(sw.Tag) == "elem[0]" {
			return sw
		}
		return nil
	}
	var walk func(list []ast.Stmt)
	walk = func(list []ast.Stmt) {
		for i, st := range list {
			if sw := isSwitchHead(st); sw != nil {
				// is there a parameter capture later at the same level?
				paramSibling := false
				for _, later := range list[i+1:] {
					if isParamCapture(later) {
						paramSibling = true
					}
				}
				for _, cs := range sw.Body.List {
					cc := cs.(*ast.CaseClause)
					ck := fmt.Sprintf("%s:case %s", key, exprList(cc.List))
					if paramSibling {
						saved := len(cc.Body) > 0 && nodeIs(cc.Body[0], "origElem := elem")
						restored := len(cc.Body) > 0 && nodeIs(cc.Body[len(cc.Body)-1], "elem = origElem")
						if !saved || !restored {
							r.Fail("static-case-without-restore", c.Pos(cc.Pos()), ck+": a static child with a parameter sibling does not save and restore elem: after a failed static match the parameter child sees a truncated path")
							continue
						}
						// breaks that leave the case after elem was consumed (path-sensitive over if/else)
						bad := token.NoPos
						var scanList func(list []ast.Stmt, consumed bool) bool
						var scanStmt func(st ast.Stmt, consumed bool) bool
						scanStmt = func(st ast.Stmt, consumed bool) bool {
							switch x := st.(type) {
							case *ast.AssignStmt:
								if len(x.Lhs) == 1 && isElem(x.Lhs[0]) {
									return !nodeIs(x, "elem = origElem")
								}
							case *ast.BranchStmt:
								if x.Tok == token.BREAK && x.Label == nil && consumed && bad == token.NoPos {
									bad = x.Pos()
								}
							case *ast.IfStmt:
								a := scanList(x.Body.List, consumed)
								b := consumed
								switch e := x.Else.(type) {
								case *ast.BlockStmt:
									b = scanList(e.List, consumed)
								case *ast.IfStmt:
									b = scanStmt(e, consumed)
								}
								return a || b
							case *ast.BlockStmt:
								return scanList(x.List, consumed)
							case *ast.SwitchStmt, *ast.ForStmt, *ast.RangeStmt, *ast.SelectStmt, *ast.TypeSwitchStmt:
								// a break inside leaves only the inner statement; consumption inside may persist
								inner := false
								ast.Inspect(x, func(m ast.Node) bool {
									if as, ok := m.(*ast.AssignStmt); ok && len(as.Lhs) == 1 && isElem(as.Lhs[0]) && !nodeIs(as, "elem = origElem") {
										inner = true
									}
									return true
								})
								return consumed || inner
							}
							return consumed
						}
						scanList = func(list []ast.Stmt, consumed bool) bool {
							for _, st := range list {
								consumed = scanStmt(st, consumed)
							}
							return consumed
						}
						scanList(cc.Body, false)
						if bad != token.NoPos {
							r.Fail("break-after-consume-without-restore", c.Pos(bad), ck+": `break` leaves the static case after part of elem was consumed, without `elem = origElem`: the parameter sibling then matches the remainder (e.g. /pet/friendNames/x/avatar is served as /pet/{name}/avatar)")
						} else {
							r.Pass(ck + ": saved, restored, and no exit after consumption bypasses the restore")
						}
					}
				}
			}
			if isParamCapture(st) {
				// a static switch after the parameter capture at the same level would make the parameter win
				for _, later := range list[i+1:] {
					if sw := isSwitchHead(later); sw != nil {
						// this is the switch over what follows the parameter (its tail) — fine
						_ = sw
					}
				}
			}
			ast.Inspect(st, func(m ast.Node) bool {
				switch b := m.(type) {
				case *ast.BlockStmt:
					walk(b.List)
					return false
				case *ast.CaseClause:
					walk(b.Body)
					return false
				}
				return true
			})
		}
	}
	before := r.Obligations
	walk(fd.Body.List)
	if r.Obligations == before {
		r.Pass(key + ": no static child has a parameter sibling")
	}
}

func keysOf(m map[rune]bool) []string {
	var out []string
	for ch := range m {
		out = append(out, strconv.QuoteRune(ch))
	}
	sort.Strings(out)
	return out
}

func exprList(xs []ast.Expr) string {
	var out []string
	for _, x := range xs {
		out = append(out, types.ExprString(x))
	}
	return strings.Join(out, ",")
}

func nodeIs(n ast.Node, text string) bool {
	as, ok := n.(*ast.AssignStmt)
	if !ok || len(as.Lhs) != 1 || len(as.Rhs) != 1 {
		return false
	}
	return types.ExprString(as.Lhs[0])+" "+as.Tok.String()+" "+types.ExprString(as.Rhs[0]) == text
}

// routerTokens normalises the decision tree of ServeHTTP / FindPath.
func routerTokens(pkg *packages.Package, fd *ast.FuncDecl, serve bool) ([]string, []ast.Node) {
	var toks []string
	var unknown []ast.Node
	emit := func(s string) { toks = append(toks, s) }
	// start at the `switch { default: … }` statement
	var start *ast.SwitchStmt
	for _, st := range fd.Body.List {
		if sw, ok := st.(*ast.SwitchStmt); ok && sw.Tag == nil && len(sw.Body.List) == 1 {
			start = sw
		}
	}
	if start == nil {
		return nil, []ast.Node{fd}
	}
	var leaf func(list []ast.Stmt)
	var block func(list []ast.Stmt)
	methodSwitch := func(sw *ast.SwitchStmt) {
		emit("METHODS{")
		for _, cs := range sw.Body.List {
			cc := cs.(*ast.CaseClause)
			if cc.List == nil {
				continue // default: notAllowed / return — checked by R05.4
			}
			m, _ := constStr(pkg, cc.List[0])
			op, n := "?", "?"
			ast.Inspect(cc, func(x ast.Node) bool {
				switch y := x.(type) {
				case *ast.CallExpr:
					if se, ok := y.Fun.(*ast.SelectorExpr); ok && strings.HasPrefix(se.Sel.Name, "handle") && strings.HasSuffix(se.Sel.Name, "Request") && len(y.Args) > 0 {
						op = strings.TrimSuffix(strings.TrimPrefix(se.Sel.Name, "handle"), "Request")
						if cl, ok := y.Args[0].(*ast.CompositeLit); ok {
							if at, ok := pkg.TypesInfo.TypeOf(cl).(*types.Array); ok {
								n = fmt.Sprint(at.Len())
							}
						}
					}
				case *ast.AssignStmt:
					if len(y.Lhs) == 1 && len(y.Rhs) == 1 {
						switch types.ExprString(y.Lhs[0]) {
						case "r.name":
							op = strings.TrimSuffix(types.ExprString(y.Rhs[0]), "Operation")
						case "r.count":
							n = types.ExprString(y.Rhs[0])
						}
					}
				}
				return true
			})
			emit(fmt.Sprintf("%s→%s/%s", m, op, n))
		}
		emit("}")
	}
	leaf = func(list []ast.Stmt) {
		for _, st := range list {
			switch s := st.(type) {
			case *ast.SwitchStmt:
				if s.Tag != nil && (types.ExprString(s.Tag) == "r.Method" || types.ExprString(s.Tag) == "method") {
					methodSwitch(s)
					continue
				}
				unknown = append(unknown, st)
			case *ast.ReturnStmt:
				// ServeHTTP returns after the method switch, FindPath inside its arms: not part of the tree
			case *ast.BranchStmt:
				emit("BREAK")
			default:
				unknown = append(unknown, st)
			}
		}
	}
	block = func(list []ast.Stmt) {
		for _, st := range list {
			switch s := st.(type) {
			case *ast.IfStmt:
				cond := types.ExprString(s.Cond)
				switch {
				case s.Init != nil && strings.HasPrefix(nodeString(pkg, s.Init), "l := len("):
					p, _ := constStr(pkg, s.Init.(*ast.AssignStmt).Rhs[0].(*ast.CallExpr).Args[0])
					emit(fmt.Sprintf("PREFIX(%q)", p))
				case cond == "len(elem) == 0":
					emit("END{")
					leaf(s.Body.List)
					emit("}")
				case cond == "idx < 0":
					emit("TOEND")
				case cond == "idx >= 0":
					emit("NOSLASH")
				default:
					unknown = append(unknown, st)
				}
			case *ast.AssignStmt:
				text := nodeString(pkg, s)
				switch {
				case text == "origElem := elem":
					emit("SAVE")
				case text == "elem = origElem":
					emit("RESTORE")
				case text == "elem = elem[idx:]":
					emit("REST")
				case text == `elem = ""`:
					emit("EMPTY")
				case strings.HasPrefix(text, "idx := strings.Index"):
					ce := s.Rhs[0].(*ast.CallExpr)
					if ch, ok := constChar(pkg, ce.Args[1]); ok {
						emit(fmt.Sprintf("UNTIL(%q)", ch))
					} else if str, ok := constStr(pkg, ce.Args[1]); ok {
						emit(fmt.Sprintf("UNTILANY(%q)", str))
					} else {
						unknown = append(unknown, st)
					}
				case strings.HasPrefix(text, "args["):
					emit("ARG(" + text + ")")
				default:
					unknown = append(unknown, st)
				}
			case *ast.SwitchStmt:
				if s.Tag != nil && types.ExprString(s.Tag) == "elem[0]" {
					emit("HEAD{")
					for _, cs := range s.Body.List {
						cc := cs.(*ast.CaseClause)
						emit("CASE(" + exprList(cc.List) + "){")
						block(cc.Body)
						emit("}")
					}
					emit("}")
					continue
				}
				unknown = append(unknown, st)
			case *ast.BranchStmt:
				emit("BREAK")
			case *ast.ReturnStmt:
				emit("RETURN")
			case *ast.EmptyStmt:
			default:
				unknown = append(unknown, st)
			}
		}
	}
	block(start.Body.List[0].(*ast.CaseClause).Body)
	return toks, unknown
}

// checkAllow implements R05.4.
func checkAllow(c *core.Ctx, r *core.Rule, pkg *packages.Package, key string, sh *ast.FuncDecl) {
	ast.Inspect(sh.Body, func(n ast.Node) bool {
		sw, ok := n.(*ast.SwitchStmt)
		if !ok || sw.Tag == nil || types.ExprString(sw.Tag) != "r.Method" {
			return true
		}
		var methods []string
		var def *ast.CaseClause
		for _, cs := range sw.Body.List {
			cc := cs.(*ast.CaseClause)
			if cc.List == nil {
				def = cc
				continue
			}
			for _, x := range cc.List {
				if m, ok := constStr(pkg, x); ok {
					methods = append(methods, m)
				}
			}
		}
		k := fmt.Sprintf("%s:allow(%s)", key, strings.Join(methods, ","))
		if def == nil || len(def.Body) != 1 {
			r.Fail(k+":default", c.Pos(sw.Pos()), "the method switch has no default arm consisting of the single notAllowed call")
			return true
		}
		es, ok := def.Body[0].(*ast.ExprStmt)
		var allow string
		okCall := false
		if ok {
			if ce, ok := es.X.(*ast.CallExpr); ok && strings.HasSuffix(types.ExprString(ce.Fun), ".notAllowed") && len(ce.Args) == 3 {
				allow, okCall = constStr(pkg, ce.Args[2])
			}
		}
		if okCall && allow == strings.Join(methods, ",") {
			r.Pass(fmt.Sprintf("%s: Allow = %q", key, allow))
		} else {
			r.Fail(k, c.Pos(def.Pos()), fmt.Sprintf("405 answers Allow %q but the leaf defines methods %q", allow, strings.Join(methods, ",")))
		}
		return true
	})
}

// checkArgsOrder implements the arity part of R05.6.
func checkArgsOrder(c *core.Ctx, r *core.Rule, pkg *packages.Package, key string, sh *ast.FuncDecl) {
	ast.Inspect(sh.Body, func(n ast.Node) bool {
		ce, ok := n.(*ast.CallExpr)
		if !ok {
			return true
		}
		se, ok := ce.Fun.(*ast.SelectorExpr)
		if !ok || !strings.HasPrefix(se.Sel.Name, "handle") || !strings.HasSuffix(se.Sel.Name, "Request") || len(ce.Args) == 0 {
			return true
		}
		cl, ok := ce.Args[0].(*ast.CompositeLit)
		if !ok {
			r.Undecided(key+":"+se.Sel.Name+":args", c.Pos(ce.Pos()), "first argument is not an array literal")
			return true
		}
		at, _ := pkg.TypesInfo.TypeOf(cl).(*types.Array)
		okOrder := at != nil && int64(len(cl.Elts)) == at.Len()
		for i, el := range cl.Elts {
			if types.ExprString(el) != fmt.Sprintf("args[%d]", i) {
				okOrder = false
			}
		}
		if okOrder {
			r.Pass(fmt.Sprintf("%s: %s receives args[0..%d) in order", key, se.Sel.Name, len(cl.Elts)))
		} else {
			r.Fail(key+":"+se.Sel.Name+":args", c.Pos(ce.Pos()), se.Sel.Name+" does not receive args[0..n) in order")
		}
		return true
	})
}

// checkEntry: both functions normalise RawPath and cut the prefix before matching.
func checkEntry(c *core.Ctx, r *core.Rule, pkg *packages.Package, key string, sh, fp *ast.FuncDecl) {
	for _, fd := range []*ast.FuncDecl{sh, fp} {
		norm, cut := false, false
		ast.Inspect(fd.Body, func(n ast.Node) bool {
			if ce, ok := n.(*ast.CallExpr); ok {
				switch types.ExprString(ce.Fun) {
				case "uri.NormalizeEscapedPath":
					norm = true
				case "s.cutPrefix":
					cut = len(ce.Args) == 1 && isElem(ce.Args[0])
				}
			}
			return true
		})
		k := key + "." + fd.Name.Name
		if norm && cut {
			r.Pass(k + ": matches on NormalizeEscapedPath(RawPath) after cutPrefix(elem)")
		} else {
			r.Fail(k+":entry", c.Pos(fd.Pos()), fmt.Sprintf("%s does not normalise the raw path (%v) / cut the configured prefix (%v) before matching", fd.Name.Name, norm, cut))
		}
	}
}

// checkOneOutcome implements R05.5 on SSA.
func checkOneOutcome(c *core.Ctx, r *core.Rule, key string, fn *ssa.Function) {
	isW := map[ssa.Instruction]bool{}
	var ws []ssa.CallInstruction
	for _, call := range core.Calls(fn) {
		cal := call.Common().StaticCallee()
		if cal == nil {
			continue
		}
		n := cal.Name()
		if (strings.HasPrefix(n, "handle") && strings.HasSuffix(n, "Request")) || n == "notAllowed" || n == "notFound" {
			isW[call] = true
			ws = append(ws, call)
		}
	}
	if len(ws) == 0 {
		r.Fail(key+":no-outcome", c.Pos(fn.Pos()), "ServeHTTP has no outcome call")
		return
	}
	n := len(fn.Blocks)
	out := make([]bool, n)
	for i := range out {
		out[i] = true
	}
	hasW := make([]bool, n)
	for _, w := range ws {
		hasW[w.Block().Index] = true
	}
	for changed := true; changed; {
		changed = false
		for _, b := range fn.Blocks {
			in := b.Index != 0
			for _, p := range b.Preds {
				if !out[p.Index] {
					in = false
				}
			}
			if v := in || hasW[b.Index]; v != out[b.Index] {
				out[b.Index] = v
				changed = true
			}
		}
	}
	silent := 0
	for _, b := range fn.Blocks {
		if ret, ok := b.Instrs[len(b.Instrs)-1].(*ssa.Return); ok && !out[b.Index] {
			silent++
			r.Fail(key+":silent-return", c.Pos(ret.Pos()), "ServeHTTP can return without dispatching, notAllowed or notFound")
		}
	}
	// at most one: no outcome call reachable from another
	double := 0
	for _, w1 := range ws {
		seen := map[*ssa.BasicBlock]bool{}
		stack := append([]*ssa.BasicBlock{}, w1.Block().Succs...)
		for len(stack) > 0 {
			b := stack[len(stack)-1]
			stack = stack[:len(stack)-1]
			if seen[b] {
				continue
			}
			seen[b] = true
			stack = append(stack, b.Succs...)
		}
		for _, w2 := range ws {
			if w1 == w2 {
				continue
			}
			if seen[w2.Block()] || (w1.Block() == w2.Block() && instrIndex(w1) < instrIndex(w2)) {
				double++
				r.Fail(key+":double-outcome", c.Pos(w2.Pos()), fmt.Sprintf("%s is reachable after %s: two outcomes for one request", w2.Common().StaticCallee().Name(), w1.Common().StaticCallee().Name()))
			}
		}
	}
	if silent == 0 && double == 0 {
		r.Pass(fmt.Sprintf("%s: every path performs exactly one of %d outcome calls", key, len(ws)))
	}
}

// checkRouteTreeS1: two structural necessary conditions of the radix-tree
// construction in package gen (holds for every route set).
func checkRouteTreeS1(c *core.Ctx, r *core.Rule) {
	prog, err := c.Program("./gen")
	if err != nil {
		r.Undecided("load:gen", "-", err.Error())
		return
	}
	// (c) longestPrefix: the split point is the index of the first differing byte itself. Children of a node are
	// keyed by their first byte; a split point moved away from the first difference leaves two siblings with the
	// same first byte (a duplicate `case` in the generated switch) or an empty prefix.
	if lp := prog.Func(pkgGen, "longestPrefix"); lp == nil {
		r.Undecided("anchor:longestPrefix", "-", "gen.longestPrefix not found")
	} else {
		found := false
		for _, b := range lp.Blocks {
			iff, ok := b.Instrs[len(b.Instrs)-1].(*ssa.If)
			if !ok {
				continue
			}
			bo, ok := iff.Cond.(*ssa.BinOp)
			if !ok || (bo.Op != token.NEQ && bo.Op != token.EQL) {
				continue
			}
			idxOf := func(v ssa.Value) ssa.Value {
				switch x := v.(type) {
				case *ssa.Index:
					return x.Index
				case *ssa.Lookup:
					return x.Index
				}
				return nil
			}
			ix, iy := idxOf(bo.X), idxOf(bo.Y)
			if ix == nil || ix != iy {
				continue
			}
			found = true
			diff := b.Succs[0]
			if bo.Op == token.EQL {
				diff = b.Succs[1]
			}
			ret, isRet := diff.Instrs[len(diff.Instrs)-1].(*ssa.Return)
			if isRet && len(ret.Results) == 1 && ret.Results[0] == ix {
				r.Pass("longestPrefix returns the index of the first differing byte")
			} else {
				r.Fail("longestPrefix:split-point", c.Pos(iff.Cond.Pos()), "longestPrefix does not return the index of the first differing byte on the mismatch edge: after a split two sibling nodes can start with the same byte (duplicate `case` in the generated router) or the shared node gets an empty prefix")
			}
		}
		if !found {
			r.Undecided("longestPrefix:shape", c.Pos(lp.Pos()), "no comparison k1[i] != k2[i] found in longestPrefix")
		}
	}
	// (a) Tails: the only exit is after the loop, and every non-parameter child contributes its head
	if tails := prog.Func(pkgGen, "RouteNode.Tails"); tails == nil {
		r.Undecided("anchor:Tails", "-", "gen.(*RouteNode).Tails not found")
	} else {
		nRet, inLoop := 0, false
		for _, b := range tails.Blocks {
			if _, ok := b.Instrs[len(b.Instrs)-1].(*ssa.Return); !ok {
				continue
			}
			nRet++
			// a return inside the loop body can reach… nothing; detect by: some loop header is reachable from a
			// predecessor chain AND this block is dominated by the loop body entry — simpler: the return block must
			// be reachable only through the loop's exit edge, i.e. it must not be dominated by a block that has a
			// back edge successor other than through the header's false edge
			for _, h := range tails.Blocks {
				if len(h.Preds) >= 2 && h != b {
					// h is a loop header if one of its preds is dominated by it
					isHeader := false
					for _, p := range h.Preds {
						if h.Dominates(p) {
							isHeader = true
						}
					}
					if !isHeader {
						continue
					}
					// body entry: successor of h that can reach h again
					for _, sc := range h.Succs {
						if reaches(sc, h) && sc.Dominates(b) {
							inLoop = true
						}
					}
				}
			}
		}
		// heads appended: an append of a load of field `head`
		appendsHead := false
		for _, b := range tails.Blocks {
			for _, in := range b.Instrs {
				if call, ok := in.(*ssa.Call); ok {
					if bi, ok := call.Common().Value.(*ssa.Builtin); ok && bi.Name() == "append" {
						appendsHead = true
					}
				}
			}
		}
		if nRet >= 1 && !inLoop && appendsHead {
			r.Pass("RouteNode.Tails returns only after visiting every child (no exit inside the loop)")
		} else {
			r.Fail("Tails:early-exit", c.Pos(tails.Pos()), "RouteNode.Tails can return before all children were visited: a parameter followed by several different static continuations is delimited by only some of them (the others are captured into the argument or answer 404)")
		}
	}
	// (b) addRoute: after parent.replaceChild(…) the existing node's prefix is cut on every path
	ar := prog.Func(pkgGen, "RouteTree.addRoute")
	if ar == nil {
		r.Undecided("anchor:addRoute", "-", "gen.(*RouteTree).addRoute not found")
		return
	}
	// the split may live in addRoute itself or in a helper of package gen it calls (splitChild): the function that
	// calls replaceChild is the one the rule speaks about
	{
		cands := []*ssa.Function{ar}
		seenF := map[*ssa.Function]bool{ar: true}
		for i := 0; i < len(cands) && len(cands) < 12; i++ {
			for _, call := range core.Calls(cands[i]) {
				if cal := call.Common().StaticCallee(); cal != nil && !seenF[cal] && core.FuncPkgPath(cal) == pkgGen && len(cal.Blocks) > 0 && cal.Name() != "replaceChild" {
					seenF[cal] = true
					cands = append(cands, cal)
				}
			}
		}
		for _, f := range cands {
			for _, call := range core.Calls(f) {
				if cal := call.Common().StaticCallee(); cal != nil && cal.Name() == "replaceChild" {
					ar = f
				}
			}
		}
	}
	var replace ssa.CallInstruction
	for _, call := range core.Calls(ar) {
		if cal := call.Common().StaticCallee(); cal != nil && cal.Name() == "replaceChild" {
			replace = call
		}
	}
	var cut *ssa.Store
	for _, b := range ar.Blocks {
		for _, in := range b.Instrs {
			st, ok := in.(*ssa.Store)
			if !ok {
				continue
			}
			if fa, ok := st.Addr.(*ssa.FieldAddr); ok && fieldName(fa.X.Type(), fa.Field) == "prefix" {
				if sl, ok := st.Val.(*ssa.Slice); ok && sl.Low != nil && sl.High == nil && isFieldLoad(sl.X, "prefix") {
					cut = st
				}
			}
		}
	}
	if replace == nil || cut == nil {
		r.Undecided("addRoute:shape", c.Pos(ar.Pos()), "addRoute has no replaceChild call / no `n.prefix = n.prefix[commonPrefix:]` store")
		return
	}
	bad := false
	for _, b := range ar.Blocks {
		term := b.Instrs[len(b.Instrs)-1]
		_, isRet := term.(*ssa.Return)
		if !isRet {
			continue
		}
		// returns reached after the split
		after := replace.Block().Dominates(b) && (replace.Block() != b)
		if after && !cut.Block().Dominates(b) {
			// an error return of replaceChild itself is fine (none today); flag everything else
			bad = true
			r.Fail("addRoute:split-without-cut", c.Pos(term.Pos()), "after splitting a node (replaceChild) addRoute can return without cutting the common prefix from the existing node: the old routes keep their full prefix below the new node and stop matching")
		}
	}
	if !bad {
		r.Pass("addRoute: every return after a split is dominated by `n.prefix = n.prefix[commonPrefix:]`")
	}
}
