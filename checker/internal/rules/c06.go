package rules

import (
	"fmt"
	"go/ast"
	"go/constant"
	"go/token"
	"go/types"
	"sort"
	"strings"

	"golang.org/x/tools/go/callgraph"
	"golang.org/x/tools/go/packages"
	"golang.org/x/tools/go/ssa"

	"ogenverif/internal/byteset"
	"ogenverif/internal/core"
	"ogenverif/internal/panicob"
	"ogenverif/internal/peval"
)

func init() {
	register(&Property{
		ID: "C06",
		Meta: core.Meta{
			Level: "other",
			Explanation: "Exhaustive over the finite configuration space (location × style × explode × shape) that the parser's admission table (read from the composite literal in validateParamStyle) and the generator's isSupportedParamStyle admit: for each configuration the runtime encoder and decoder are partially evaluated with (style, explode, typ) bound to constants (engine E4: constant propagation with branch pruning on the typed AST, entering same-package callees) and the delimiter constants that reach the delimiter sinks are collected. " +
				"(R06.1) the encoder's delimiter set equals the decoder's and both equal the OpenAPI 3.0.3 style table; object kv/field separator pairs agree; (R06.2) the encoder refuses (checkNotContains) items containing the item separator, names containing the key/value separator and values containing the field separator, and the check precedes escaping; (R06.3) no panic is reachable in the encoder or decoder for any admitted configuration; (R06.4) nested shapes are refused at generation time: isParamAllowed is exhaustive over ir.Kind and every kind with component types either errors or recurses into them, and every site that enables the uri feature is paired with isParamAllowed; (R06.5) cookie escaping: '%' is escaped, the escape alphabet is accepted by the decoder's hex test, unhex inverts it (tabulated over 256 bytes); (R06.6) compiler-unproven bounds checks and explicit panics of package uri are discharged or justified. " +
				"NOT decided: the value-level inverse (decode(encode(v)) == v), empty strings/collections, escaping performed inside net/url and net/http.",
			Assumptions: []string{
				"reference: OpenAPI 3.0.3 §4.7.12 style examples, frozen in checker/internal/rules/c06.go",
				"loops are not summarised by E4 (sink constants inside loops are collected, values are not)",
			},
			TrustedBase: []string{"E4 partial evaluator (checker/internal/peval)", "tables/panic_justified.json"},
		},
		Run: runC06,
	})
}

type styleRef struct {
	in, style string
	explode   bool
	shape     string // value array object
	delims    string // every delimiter character of the serialization (excluding the parameter name)
	itemSep   string // array: what separates items ("" = one parameter instance per item)
	kvSep     string // object
	fieldSep  string
}

// OpenAPI 3.0.3, "Style Examples" table.
var oasStyles = []styleRef{
	{"path", "simple", false, "value", "", "", "", ""},
	{"path", "simple", true, "value", "", "", "", ""},
	{"path", "simple", false, "array", ",", ",", "", ""},
	{"path", "simple", true, "array", ",", ",", "", ""},
	{"path", "simple", false, "object", ",", "", ",", ","},
	{"path", "simple", true, "object", "=,", "", "=", ","},
	{"path", "label", false, "value", ".", "", "", ""},
	{"path", "label", true, "value", ".", "", "", ""},
	{"path", "label", false, "array", ".,", ",", "", ""},
	{"path", "label", true, "array", ".", ".", "", ""},
	{"path", "label", false, "object", ".,", "", ",", ","},
	{"path", "label", true, "object", ".=", "", "=", "."},
	{"path", "matrix", false, "value", ";=", "", "", ""},
	{"path", "matrix", true, "value", ";=", "", "", ""},
	{"path", "matrix", false, "array", ";=,", ",", "", ""},
	{"path", "matrix", true, "array", ";=", ";", "", ""},
	{"path", "matrix", false, "object", ";=,", "", ",", ","},
	{"path", "matrix", true, "object", ";=", "", "=", ";"},
	{"query", "form", false, "value", "", "", "", ""},
	{"query", "form", true, "value", "", "", "", ""},
	{"query", "form", false, "array", ",", ",", "", ""},
	{"query", "form", true, "array", "", "", "", ""},
	{"query", "form", false, "object", ",", "", ",", ","},
	{"query", "form", true, "object", "", "", "", ""},
	{"query", "spaceDelimited", false, "array", " ", " ", "", ""},
	{"query", "spaceDelimited", true, "array", "", "", "", ""},
	{"query", "pipeDelimited", false, "array", "|", "|", "", ""},
	{"query", "pipeDelimited", true, "array", "", "", "", ""},
	{"query", "deepObject", true, "object", "[]", "", "", ""},
	{"header", "simple", false, "value", "", "", "", ""},
	{"header", "simple", true, "value", "", "", "", ""},
	{"header", "simple", false, "array", ",", ",", "", ""},
	{"header", "simple", true, "array", ",", ",", "", ""},
	{"header", "simple", false, "object", ",", "", ",", ","},
	{"header", "simple", true, "object", "=,", "", "=", ","},
	{"cookie", "form", false, "value", "", "", "", ""},
	{"cookie", "form", true, "value", "", "", "", ""},
	{"cookie", "form", false, "array", ",", ",", "", ""},
	{"cookie", "form", false, "object", ",", "", ",", ","},
}

func sortedChars(m map[rune]bool) string {
	var rs []rune
	for r := range m {
		rs = append(rs, r)
	}
	sort.Slice(rs, func(i, j int) bool { return rs[i] < rs[j] })
	return string(rs)
}

func charsOf(v peval.Val, into map[rune]bool) bool {
	if v.Kind != peval.Const {
		return false
	}
	switch v.K.Kind() {
	case constant.String:
		for _, r := range constant.StringVal(v.K) {
			into[r] = true
		}
		return true
	case constant.Int:
		n, _ := constant.Int64Val(v.K)
		into[rune(n)] = true
		return true
	}
	return false
}

type delimView struct {
	all     map[rune]bool
	pairs   [][2]string // (kv, field)
	refuse  map[string]map[rune]bool
	itemSep map[rune]bool
	sinks   []string
}

var encSinks = map[string][]int{
	"strings.Join":                    {1},
	core.Module + "/uri.encodeObject": {0, 1},
	"builtin append":                  {1},
}

var decSinks = map[string][]int{
	"(*" + core.Module + "/uri.cursor).eat":       {0},
	"(*" + core.Module + "/uri.cursor).readUntil": {0},
	"(*" + core.Module + "/uri.cursor).readValue": {0},
	core.Module + "/uri.parseArray":               {1},
	"strings.Split":                               {1},
	core.Module + "/uri.decodeObject":             {1, 2},
}

func viewOf(res *peval.Result, enc bool) delimView {
	v := delimView{all: map[rune]bool{}, refuse: map[string]map[rune]bool{}, itemSep: map[rune]bool{}}
	tbl := decSinks
	if enc {
		tbl = encSinks
	}
	for _, s := range res.Sinks {
		switch s.Kind {
		case "concat":
			// error messages are built with Errorf, never by concatenation; every constant piece of a
			// concatenation in these functions is part of the wire form
			for _, a := range s.Args {
				charsOf(a, v.all)
			}
			v.sinks = append(v.sinks, s.String())
		case "call":
			if s.Callee == core.Module+"/uri.checkNotContains" && enc {
				role := "item"
				switch {
				case strings.Contains(s.ArgSrc[0], ".Name"):
					role = "name"
				case strings.Contains(s.ArgSrc[0], ".Value"):
					role = "value"
				case strings.Contains(s.ArgSrc[0], "param"):
					role = "param"
				}
				if v.refuse[role] == nil {
					v.refuse[role] = map[rune]bool{}
				}
				charsOf(s.Args[1], v.refuse[role])
				v.sinks = append(v.sinks, s.String())
				continue
			}
			idx, ok := tbl[s.Callee]
			if !ok {
				continue
			}
			any := false
			for _, i := range idx {
				if i < len(s.Args) && charsOf(s.Args[i], v.all) {
					any = true
				}
			}
			if strings.HasSuffix(s.Callee, "encodeObject") || strings.HasSuffix(s.Callee, "decodeObject") {
				a, b := s.Args[idx[0]], s.Args[idx[1]]
				if a.Kind == peval.Const && b.Kind == peval.Const {
					ka, kb := map[rune]bool{}, map[rune]bool{}
					charsOf(a, ka)
					charsOf(b, kb)
					v.pairs = append(v.pairs, [2]string{sortedChars(ka), sortedChars(kb)})
				}
			} else if strings.HasSuffix(s.Callee, "Join") || strings.HasSuffix(s.Callee, "append") || strings.HasSuffix(s.Callee, "parseArray") || strings.HasSuffix(s.Callee, "Split") {
				for _, i := range idx {
					if i < len(s.Args) {
						charsOf(s.Args[i], v.itemSep)
					}
				}
			}
			if any {
				v.sinks = append(v.sinks, s.String())
			}
		}
	}
	return v
}

func runC06(c *core.Ctx) error {
	pkgs, err := c.Load("./uri", "./openapi/parser", "./gen", "./gen/ir")
	if err != nil {
		return err
	}
	uriPkg := findPkg(pkgs, pkgURI)
	parserPkg := findPkg(pkgs, pkgParser)
	genPkg := findPkg(pkgs, pkgGen)
	irPkg := findPkg(pkgs, pkgIR)
	jsPkg := findPkg(pkgs, pkgJS)
	oaPkg := findPkg(pkgs, pkgOpenAPI)
	if uriPkg == nil || parserPkg == nil || genPkg == nil || irPkg == nil || jsPkg == nil || oaPkg == nil {
		return fmt.Errorf("packages not loaded")
	}
	r1 := c.NewRule("R06.1", "S1", "encoder delimiters = decoder delimiters = OpenAPI style table, per admitted configuration", 30)
	r2 := c.NewRule("R06.2", "S1", "encoder refuses values containing the active delimiter, before escaping", 14)
	r3 := c.NewRule("R06.3", "S1", "no panic reachable in encoder/decoder for any admitted configuration", 30)
	r4 := c.NewRule("R06.4", "S1", "nested shapes refused at generation time (isParamAllowed exhaustive and recursive; uri feature paired with it)", 12)
	r5 := c.NewRule("R06.5", "S1", "cookie escaping is an inverse pair on every escaped byte", 3)
	r6 := c.NewRule("R06.6", "S1", "bounds obligations and explicit panics of package uri discharged", 40)

	// ---- admission table from validateParamStyle
	pev := peval.New(parserPkg, oaPkg, jsPkg)
	admitted, err := admissionTable(pev, parserPkg)
	if err != nil {
		r1.Undecided("anchor:validateParamStyle", "-", err.Error())
		return nil
	}
	r1.Note("admission table read from validateParamStyle: %d (location, style, explode) rows", len(admitted))

	// ---- isSupportedParamStyle
	gev := peval.New(genPkg, oaPkg, jsPkg, irPkg)
	supFn, _ := gev.FindFunc(pkgGen, "isSupportedParamStyle")
	if supFn == nil {
		r1.Undecided("anchor:isSupportedParamStyle", "-", "gen.isSupportedParamStyle not found")
		return nil
	}
	jsType := func(shape string) constant.Value {
		name := map[string]string{"value": "String", "array": "Array", "object": "Object"}[shape]
		if k, ok := jsPkg.Types.Scope().Lookup(name).(*types.Const); ok {
			return k.Val()
		}
		return nil
	}

	uev := peval.New(uriPkg)
	typConst := func(shape string) constant.Value {
		name := map[string]string{"value": "typeValue", "array": "typeArray", "object": "typeObject"}[shape]
		if k, ok := uriPkg.Types.Scope().Lookup(name).(*types.Const); ok {
			return k.Val()
		}
		return nil
	}
	type codec struct{ enc, decV, decA, decO string }
	codecs := map[string]codec{
		"path":   {"PathEncoder.Result", "PathDecoder.DecodeValue", "PathDecoder.DecodeArray", "PathDecoder.DecodeFields"},
		"query":  {"queryParamEncoder.serialize", "queryParamDecoder.DecodeValue", "queryParamDecoder.DecodeArray", "queryParamDecoder.DecodeFields"},
		"header": {"headerParamEncoder.serialize", "headerParamDecoder.DecodeValue", "headerParamDecoder.DecodeArray", "headerParamDecoder.DecodeFields"},
		"cookie": {"cookieParamEncoder.serialize", "cookieParamDecoder.DecodeValue", "cookieParamDecoder.DecodeArray", "cookieParamDecoder.DecodeFields"},
	}

	var rows []admRow
	for _, a := range admitted {
		for _, shape := range []string{"value", "array", "object"} {
			if !a.shapes[shape] {
				continue
			}
			rows = append(rows, admRow{a.in, a.style, a.explode, shape})
		}
	}
	sort.Slice(rows, func(i, j int) bool { return rows[i].String() < rows[j].String() })

	nCfg := 0
	for _, row := range rows {
		cfg := row.String()
		// generator-side support
		gev.Bind = map[string]peval.Val{"Style": peval.K(constant.MakeString(row.style)), "Type": peval.K(jsType(row.shape)), "Schema": {Kind: peval.NonNil}}
		sres := gev.Run(supFn, nil)
		supported := len(sres.Returns) > 0
		for _, ret := range sres.Returns {
			if len(ret) != 1 || ret[0].Kind != peval.Nil {
				supported = false
			}
		}
		if !supported {
			r1.Note("%s: admitted by the parser, refused by isSupportedParamStyle (not implemented) — not analysed", cfg)
			continue
		}
		nCfg++
		ref := findStyleRef(row)
		if ref == nil {
			r1.Fail("config:"+cfg, "-", "the parser admits "+cfg+", which is not a row of the OpenAPI 3.0.3 style table")
			continue
		}
		cd := codecs[row.in]
		encFn, _ := uev.FindFunc(pkgURI, cd.enc)
		decName := map[string]string{"value": cd.decV, "array": cd.decA, "object": cd.decO}[row.shape]
		decFn, _ := uev.FindFunc(pkgURI, decName)
		if encFn == nil || decFn == nil {
			r1.Undecided("anchor:"+cfg, "-", fmt.Sprintf("uri.%s / uri.%s not found", cd.enc, decName))
			continue
		}
		uev.Bind = map[string]peval.Val{
			"style":   peval.K(constant.MakeString(row.style)),
			"explode": peval.K(constant.MakeBool(row.explode)),
			"typ":     peval.K(typConst(row.shape)),
		}
		eres := uev.Run(encFn, nil)
		dres := uev.Run(decFn, nil)
		ev, dv := viewOf(eres, true), viewOf(dres, false)
		encPos, decPos := c.Pos(uev.Decls[encFn].Pos()), c.Pos(uev.Decls[decFn].Pos())

		// R06.3 panics
		for _, side := range []struct {
			res  *peval.Result
			name string
			pos  string
		}{{eres, cd.enc, encPos}, {dres, decName, decPos}} {
			if len(side.res.Panics) == 0 {
				r3.Pass(fmt.Sprintf("%s: no panic reachable in uri.%s", cfg, side.name))
				continue
			}
			for _, p := range side.res.Panics {
				msg := ""
				if len(p.Args) > 0 {
					msg = p.Args[0].String()
				}
				r3.Fail(fmt.Sprintf("%s:%s:panic", cfg, side.name), c.Pos(p.Pos), fmt.Sprintf("configuration %s is admitted by the parser and the generator, but uri.%s reaches panic(%s) in %s", cfg, side.name, msg, p.In))
			}
		}
		if len(eres.Panics) > 0 || len(dres.Panics) > 0 {
			continue
		}

		// R06.1 delimiter sets
		want := map[rune]bool{}
		for _, r := range ref.delims {
			want[r] = true
		}
		ws, es, ds := sortedChars(want), sortedChars(ev.all), sortedChars(dv.all)
		if es == ws && ds == ws {
			r1.Pass(fmt.Sprintf("%s: encoder delimiters %q = decoder delimiters %q = OpenAPI %q", cfg, es, ds, ws))
		} else {
			side, pos := "encoder uri."+cd.enc, encPos
			if es == ws {
				side, pos = "decoder uri."+decName, decPos
			}
			r1.Fail("delims:"+cfg, pos, fmt.Sprintf("%s: encoder uses delimiters %q, decoder %q, the OpenAPI style table prescribes %q (%s deviates; sinks: enc %v | dec %v)", cfg, es, ds, ws, side, ev.sinks, dv.sinks))
		}
		if row.shape == "object" && ref.kvSep != "" {
			wantPair := [2]string{ref.kvSep, ref.fieldSep}
			for _, side := range []struct {
				pairs [][2]string
				name  string
				pos   string
			}{{ev.pairs, "encoder", encPos}, {dv.pairs, "decoder", decPos}} {
				for _, p := range side.pairs {
					if p == wantPair {
						r1.Pass(fmt.Sprintf("%s: %s object separators (kv %q, field %q)", cfg, side.name, p[0], p[1]))
					} else {
						r1.Fail("pairs:"+cfg+":"+side.name, side.pos, fmt.Sprintf("%s: %s separates key/value with %q and fields with %q, OpenAPI prescribes %q and %q", cfg, side.name, p[0], p[1], wantPair[0], wantPair[1]))
					}
				}
			}
		}
		if row.shape == "array" && ref.itemSep != "" && len(ref.itemSep) == 1 {
			for _, side := range []struct {
				set  map[rune]bool
				name string
				pos  string
			}{{ev.itemSep, "encoder", encPos}, {dv.itemSep, "decoder", decPos}} {
				if len(side.set) == 0 {
					continue // separator assembled from non-constant pieces (matrix explode); covered by the set check
				}
				if got := sortedChars(side.set); got == ref.itemSep {
					r1.Pass(fmt.Sprintf("%s: %s item separator %q", cfg, side.name, got))
				} else {
					r1.Fail("itemsep:"+cfg+":"+side.name, side.pos, fmt.Sprintf("%s: %s separates items with %q, OpenAPI prescribes %q", cfg, side.name, got, ref.itemSep))
				}
			}
		}

		// R06.2 refusal
		type need struct{ role, chars, what string }
		var needs []need
		if row.shape == "array" && ref.itemSep != "" {
			needs = append(needs, need{"item", ref.itemSep[:1], "item separator"})
		}
		if row.shape == "object" && ref.kvSep != "" {
			needs = append(needs, need{"name", ref.kvSep, "key/value separator"}, need{"value", ref.fieldSep, "field separator"})
		}
		if row.in == "path" && row.style == "matrix" {
			needs = append(needs, need{"param", "=", "name terminator"})
		}
		for _, n := range needs {
			have := ev.refuse[n.role]
			ok := true
			for _, r := range n.chars {
				if !have[r] {
					ok = false
				}
			}
			if ok {
				r2.Pass(fmt.Sprintf("%s: encoder refuses a %s containing the %s %q", cfg, n.role, n.what, n.chars))
			} else {
				r2.Fail(fmt.Sprintf("refuse:%s:%s", cfg, n.role), encPos, fmt.Sprintf("%s: the encoder does not refuse a %s containing the %s %q (checked: %q): such a value is delivered as a different value", cfg, n.role, n.what, n.chars, sortedChars(have)))
			}
		}
	}
	// the "no value was encoded" state: generated code skips the Encode call for an absent optional or
	// null value, so typ == typeNotSet is reachable for every admitted (location, style, explode)
	if k, ok := uriPkg.Types.Scope().Lookup("typeNotSet").(*types.Const); !ok {
		r3.Undecided("anchor:typeNotSet", "-", "uri.typeNotSet not found")
	} else {
		seenCfg := map[string]bool{}
		for _, row := range rows {
			cfg := fmt.Sprintf("%s/%s/explode=%v/no-value", row.in, row.style, row.explode)
			if seenCfg[cfg] {
				continue
			}
			seenCfg[cfg] = true
			cd := codecs[row.in]
			encFn, _ := uev.FindFunc(pkgURI, cd.enc)
			if encFn == nil {
				continue
			}
			uev.Bind = map[string]peval.Val{
				"style":   peval.K(constant.MakeString(row.style)),
				"explode": peval.K(constant.MakeBool(row.explode)),
				"typ":     peval.K(k.Val()),
			}
			res := uev.Run(encFn, nil)
			if len(res.Panics) == 0 {
				r3.Pass(fmt.Sprintf("%s: uri.%s does not panic when no value was encoded", cfg, cd.enc))
				continue
			}
			for _, p := range res.Panics {
				r3.Fail(fmt.Sprintf("%s:%s:panic", cfg, cd.enc), c.Pos(p.Pos), fmt.Sprintf("uri.%s panics (%s) when no value was encoded — generated clients skip the Encode call for a null/absent value (e.g. a nullable path parameter), so a caller-supplied value crashes the client instead of producing an error", cd.enc, p.Args[0]))
			}
		}
	}
	r1.Note("configurations analysed (admitted and implemented): %d", nCfg)
	checkRefuseBeforeEscape(c, uriPkg, r2)

	checkIsParamAllowed(c, genPkg, irPkg, r4)
	checkCookieEscape(c, uriPkg, r5)

	// ---- R06.6
	table, err := panicob.LoadTable(c.VerifDir, "panic_justified.json")
	if err != nil {
		return err
	}
	sites, err := panicob.Bounds(c, []*packages.Package{uriPkg})
	if err != nil {
		return err
	}
	panicob.Discharge(c, r6, sites, panicob.Options{Table: table, Filter: func(s *panicob.Site) bool {
		return !strings.HasSuffix(s.Pos.Filename, "normalize.go") // C12
	}})
	ps := panicob.Panics(c, []*packages.Package{uriPkg})
	panicob.DischargePanics(c, r6, ps, table, func(s *panicob.Site) (bool, string) {
		// a panic inside a codec function that E4 entered, and that no admitted configuration reached
		// (R06.3 fails for every panic it reaches)
		for fn := range uev.Entered {
			fd := uev.Decls[fn]
			if fd != nil && fd.Pos() <= s.Node.Pos() && s.Node.Pos() < fd.End() {
				return true, "unreachable for every admitted (location, style, explode, shape): the enclosing function was partially evaluated for all of them by R06.3"
			}
		}
		return false, ""
	})
	// ---- R06.7
	r7 := c.NewRule("R06.7", "S1+S2", "generated parameter decoders: unescape only under argsEscaped, object decoders carry their member list; uri: no one-sided normalisation, no reused buffer stored; shape guard gets a fresh visited set", 25)
	prog7, err := c.Program("./uri", "./gen")
	if err != nil {
		return err
	}
	checkUriSidesSymmetric(c, r7, prog7)
	checkNameSpecialCasesOnBothSides(c, r7, prog7)
	checkCursorLoopsAcceptTrailingEmpty(c, r7, prog7)
	deepFreeFormOK := checkHasParamDeepObject(c, r7, prog7)
	checkFreshVisitedSets(c, r7, prog7, pkgGen)
	if progM, err := c.Program("./gen", "./openapi/parser"); err != nil {
		r7.Undecided("load:memo", "-", trimPosMsg(err.Error(), 300))
	} else {
		// a long-lived table that lets the admission checks skip work answers for every input the work reads
		checkSkipMemoKeyCoversInputs(c, r7, progM, skipMemoReviewed, pkgParser, pkgGen)
	}
	ex7, err := c.Expand(fixtureNames(c))
	if err != nil {
		r7.Undecided("expand", "-", trimPosMsg(err.Error(), 400))
		return nil
	}
	checkParamDecoderShapes(c, r7, ex7, deepFreeFormOK)
	return nil
}

type admRow struct {
	in, style string
	explode   bool
	shape     string
}

func (r admRow) String() string {
	return fmt.Sprintf("%s/%s/explode=%v/%s", r.in, r.style, r.explode, r.shape)
}

func findStyleRef(r admRow) *styleRef {
	for i := range oasStyles {
		s := &oasStyles[i]
		if s.in == r.in && s.style == r.style && s.explode == r.explode && s.shape == r.shape {
			return s
		}
	}
	return nil
}

type admEntry struct {
	in, style string
	explode   bool
	shapes    map[string]bool
}

// admissionTable evaluates the `table` composite literal of
// (*parser).validateParamStyle.
func admissionTable(ev *peval.Eval, pkg *packages.Package) ([]admEntry, error) {
	fd := methodDecl(pkg, "parser", "validateParamStyle")
	if fd == nil {
		return nil, fmt.Errorf("openapi/parser.(*parser).validateParamStyle not found")
	}
	var lit *ast.CompositeLit
	bits := map[string]int64{}
	ast.Inspect(fd.Body, func(n ast.Node) bool {
		switch x := n.(type) {
		case *ast.AssignStmt:
			if len(x.Lhs) == 1 && len(x.Rhs) == 1 {
				if id, ok := x.Lhs[0].(*ast.Ident); ok && id.Name == "table" {
					lit, _ = x.Rhs[0].(*ast.CompositeLit)
				}
			}
		case *ast.ValueSpec:
			for _, n := range x.Names {
				if k, ok := pkg.TypesInfo.Defs[n].(*types.Const); ok {
					if v, ok := constant.Int64Val(k.Val()); ok {
						bits[n.Name] = v
					}
				}
			}
		}
		return true
	})
	if lit == nil {
		return nil, fmt.Errorf("validateParamStyle has no `table := map…{…}` literal")
	}
	if bits["primitive"] == 0 || bits["array"] == 0 || bits["object"] == 0 {
		return nil, fmt.Errorf("validateParamStyle: shape bit constants primitive/array/object not found")
	}
	tv := ev.EvalExpr(lit)
	if tv.Kind != peval.Map {
		return nil, fmt.Errorf("admission table is not a constant map literal")
	}
	var out []admEntry
	for i, k := range tv.Keys {
		if k.Kind != peval.Const || tv.Vals[i].Kind != peval.Map {
			return nil, fmt.Errorf("admission table: non-constant location key")
		}
		in := constant.StringVal(k.K)
		inner := tv.Vals[i]
		for j, sk := range inner.Keys {
			if sk.Kind != peval.Struct || inner.Vals[j].Kind != peval.Const {
				return nil, fmt.Errorf("admission table: non-constant entry under %q", in)
			}
			st, ex := sk.Fields["style"], sk.Fields["explode"]
			if st.Kind != peval.Const || ex.Kind != peval.Const {
				return nil, fmt.Errorf("admission table: non-constant style/explode under %q", in)
			}
			mask, _ := constant.Int64Val(inner.Vals[j].K)
			out = append(out, admEntry{in: in, style: constant.StringVal(st.K), explode: constant.BoolVal(ex.K),
				shapes: map[string]bool{"value": mask&bits["primitive"] != 0, "array": mask&bits["array"] != 0, "object": mask&bits["object"] != 0}})
		}
	}
	if len(out) == 0 {
		return nil, fmt.Errorf("admission table is empty")
	}
	return out, nil
}

// checkRefuseBeforeEscape: in the path encoder every url.PathEscape(x) of an
// item / field name / field value is preceded, in the same statement list, by
// checkNotContains on the same expression (the check sees the unescaped text).
func checkRefuseBeforeEscape(c *core.Ctx, pkg *packages.Package, r *core.Rule) {
	fd := methodDecl(pkg, "PathEncoder", "Result")
	if fd == nil {
		r.Undecided("anchor:PathEncoder.Result", "-", "uri.(*PathEncoder).Result not found")
		return
	}
	n := 0
	ast.Inspect(fd.Body, func(node ast.Node) bool {
		rs, ok := node.(*ast.RangeStmt)
		if !ok {
			return true
		}
		// within this loop body: collect checkNotContains(x, …) and PathEscape(x)
		checked := map[string]token.Pos{}
		ast.Inspect(rs.Body, func(m ast.Node) bool {
			ce, ok := m.(*ast.CallExpr)
			if !ok {
				return true
			}
			name := types.ExprString(ce.Fun)
			switch name {
			case "checkNotContains":
				checked[types.ExprString(ce.Args[0])] = ce.Pos()
			case "url.PathEscape":
				arg := types.ExprString(ce.Args[0])
				n++
				key := "escape-order:" + arg
				if p, ok := checked[arg]; ok && p < ce.Pos() {
					r.Pass(fmt.Sprintf("PathEncoder.Result: checkNotContains(%s) precedes url.PathEscape(%s)", arg, arg))
				} else {
					r.Fail(key, c.Pos(ce.Pos()), fmt.Sprintf("url.PathEscape(%s) is not preceded by checkNotContains on the unescaped %s: a delimiter inside the value is escaped, transmitted, and unescaped into a delimiter on the other side", arg, arg))
				}
			}
			return true
		})
		return true
	})
	if n == 0 {
		r.Undecided("escape-order", c.Pos(fd.Pos()), "no url.PathEscape inside a loop of PathEncoder.Result")
	}
}

// kind → component fields of ir.Type that hold nested types.
var irComponents = map[string][]string{
	"KindArray": {"Item"}, "KindAlias": {"AliasTo"}, "KindPointer": {"PointerTo"}, "KindGeneric": {"GenericOf"},
	"KindStruct": {"Fields"}, "KindMap": {"Item"}, "KindSum": {"SumOf"},
}

func checkIsParamAllowed(c *core.Ctx, genPkg, irPkg *packages.Package, r *core.Rule) {
	fd := funcDecl(genPkg, "isParamAllowed")
	if fd == nil {
		r.Undecided("anchor:isParamAllowed", "-", "gen.isParamAllowed not found")
		return
	}
	// all ir.Kind constants
	var kindT types.Type
	if tn, ok := irPkg.Types.Scope().Lookup("Kind").(*types.TypeName); ok {
		kindT = tn.Type()
	}
	var kinds []string
	for _, n := range irPkg.Types.Scope().Names() {
		if k, ok := irPkg.Types.Scope().Lookup(n).(*types.Const); ok && kindT != nil && types.Identical(k.Type(), kindT) {
			kinds = append(kinds, n)
		}
	}
	if len(kinds) == 0 {
		r.Undecided("anchor:ir.Kind", "-", "no ir.Kind constants found")
		return
	}
	var sw *ast.SwitchStmt
	ast.Inspect(fd.Body, func(n ast.Node) bool {
		if s, ok := n.(*ast.SwitchStmt); ok && sw == nil && s.Tag != nil && strings.HasSuffix(types.ExprString(s.Tag), ".Kind") {
			sw = s
		}
		return true
	})
	if sw == nil {
		r.Undecided("isParamAllowed:switch", c.Pos(fd.Pos()), "no switch over t.Kind")
		return
	}
	arms := map[string]*ast.CaseClause{}
	for _, st := range sw.Body.List {
		cc := st.(*ast.CaseClause)
		for _, x := range cc.List {
			if se, ok := x.(*ast.SelectorExpr); ok {
				arms[se.Sel.Name] = cc
			}
		}
	}
	for _, k := range kinds {
		cc := arms[k]
		key := "isParamAllowed:" + k
		if cc == nil {
			if ctor, ok := kindCtors[k]; ok {
				if un, why := ctorUnreachableFromSchemaGen(c, ctor); un {
					r.Pass(fmt.Sprintf("ir.%s: no arm needed — %s", k, why))
					continue
				}
			}
			r.Fail(key, c.Pos(sw.Pos()), "ir."+k+" has no arm in isParamAllowed (falls into the unreachable-panic)")
			continue
		}
		comps := irComponents[k]
		// unconditional error?
		alwaysErr := false
		if n := len(cc.Body); n == 1 {
			if ret, ok := cc.Body[0].(*ast.ReturnStmt); ok && len(ret.Results) == 1 {
				if id, ok := ret.Results[0].(*ast.Ident); !ok || id.Name != "nil" {
					if _, isCall := ret.Results[0].(*ast.CallExpr); !isCall {
						alwaysErr = true
					}
				}
			}
		}
		if len(comps) == 0 {
			r.Pass(fmt.Sprintf("ir.%s: leaf kind, arm present", k))
			continue
		}
		if alwaysErr {
			r.Pass(fmt.Sprintf("ir.%s: refused (not implemented)", k))
			continue
		}
		// must recurse into each component — in the arm itself or in a helper of the package the arm calls (the loop
		// over the struct's fields may live in a function of its own)
		armNodes := []ast.Node{cc}
		ast.Inspect(cc, func(n ast.Node) bool {
			ce, ok := n.(*ast.CallExpr)
			if !ok {
				return true
			}
			if id, ok := ce.Fun.(*ast.Ident); ok && id.Name != "isParamAllowed" {
				if hd := funcDecl(genPkg, id.Name); hd != nil && hd.Body != nil {
					armNodes = append(armNodes, hd.Body)
				}
			}
			return true
		})
		inspectArm := func(fn func(ast.Node) bool) {
			for _, nd := range armNodes {
				ast.Inspect(nd, fn)
			}
		}
		for _, comp := range comps {
			found := false
			nonRoot := true
			inspectArm(func(n ast.Node) bool {
				ce, ok := n.(*ast.CallExpr)
				if !ok {
					return true
				}
				if id, ok := ce.Fun.(*ast.Ident); !ok || id.Name != "isParamAllowed" || len(ce.Args) < 2 {
					return true
				}
				arg := types.ExprString(ce.Args[0])
				if strings.HasSuffix(arg, "."+comp) {
					found = true
				}
				if comp == "Fields" && strings.HasSuffix(arg, ".Type") {
					// for _, field := range t.Fields { isParamAllowed(field.Type, …) }
					// the arm hands t.Fields to a helper that ranges over its parameter
					passesFields := false
					ast.Inspect(cc, func(m ast.Node) bool {
						if hc, ok := m.(*ast.CallExpr); ok {
							for _, a := range hc.Args {
								if strings.HasSuffix(types.ExprString(a), ".Fields") {
									passesFields = true
								}
							}
						}
						return true
					})
					inspectArm(func(m ast.Node) bool {
						if rs, ok := m.(*ast.RangeStmt); ok {
							if strings.HasSuffix(types.ExprString(rs.X), ".Fields") {
								found = true
							}
							if _, isID := rs.X.(*ast.Ident); isID && passesFields && m.Pos() > cc.End() || isID && passesFields && m.End() < cc.Pos() {
								found = true
							}
						}
						return true
					})
				}
				if found && (k == "KindArray" || k == "KindStruct" || k == "KindMap") {
					if id, ok := ce.Args[1].(*ast.Ident); !ok || id.Name != "false" {
						nonRoot = false
						// the object's own additional / pattern property maps are members of the object, not a
						// nested object: `x := field.Inline != ir.InlineNone && field.Type.Is(ir.KindMap)` may stand
						// in the root position for struct fields
						if ok && k == "KindStruct" {
							inspectArm(func(m ast.Node) bool {
								if as, isAs := m.(*ast.AssignStmt); isAs && len(as.Lhs) == 1 && len(as.Rhs) == 1 && types.ExprString(as.Lhs[0]) == id.Name {
									rhs := types.ExprString(as.Rhs[0])
									if strings.Contains(rhs, ".Inline != ir.InlineNone") && strings.Contains(rhs, "ir.KindMap") && strings.Contains(rhs, "&&") {
										nonRoot = true
									}
								}
								return true
							})
						}
					}
				}
				return true
			})
			switch {
			case !found:
				r.Fail(key+":"+comp, c.Pos(cc.Pos()), fmt.Sprintf("the ir.%s arm of isParamAllowed accepts the type without inspecting its %s: a nested array or object inside it reaches the runtime codecs, whose nested-shape methods panic unconditionally", k, comp))
			case !nonRoot:
				r.Fail(key+":"+comp+":root", c.Pos(cc.Pos()), fmt.Sprintf("the ir.%s arm recurses into %s with root=true: nested containers would be accepted", k, comp))
			default:
				r.Pass(fmt.Sprintf("ir.%s: recurses into %s", k, comp))
			}
		}
		if k == "KindArray" || k == "KindStruct" || k == "KindMap" {
			// `if !root { return error }`
			guard := false
			for _, st := range cc.Body {
				if is, ok := st.(*ast.IfStmt); ok && types.ExprString(is.Cond) == "!"+paramNameOfType(fd, "bool", "root") && terminates(is.Body) {
					guard = true
				}
			}
			if guard {
				r.Pass(fmt.Sprintf("ir.%s: refused when not at the root", k))
			} else {
				r.Fail(key+":nested", c.Pos(cc.Pos()), fmt.Sprintf("the ir.%s arm does not refuse the kind below the root", k))
			}
		}
	}
	// meeting a type that is already on the path is a recursion: the hit on the visited set must end in an error,
	// and the set must be a path (the entry is deleted again when the walk leaves the type)
	{
		hitErr, pops := false, false
		ast.Inspect(fd.Body, func(n ast.Node) bool {
			switch x := n.(type) {
			case *ast.IfStmt:
				if as, ok := x.Init.(*ast.AssignStmt); ok && len(as.Rhs) == 1 && strings.HasPrefix(types.ExprString(as.Rhs[0]), paramNameOfType(fd, "map[", "visited")+"[") && len(x.Body.List) == 1 {
					if ret, ok := x.Body.List[0].(*ast.ReturnStmt); ok && len(ret.Results) == 1 {
						if id, isID := ret.Results[0].(*ast.Ident); !isID || id.Name != "nil" {
							hitErr = true
						}
					}
				}
			case *ast.CallExpr:
				if id, ok := x.Fun.(*ast.Ident); ok && id.Name == "delete" && len(x.Args) == 2 && types.ExprString(x.Args[0]) == paramNameOfType(fd, "map[", "visited") {
					pops = true
				}
			}
			return true
		})
		if hitErr && pops {
			r.Pass("isParamAllowed: a type met again on the current path is refused (recursive parameter types never reach the templates)")
		} else {
			r.Fail("isParamAllowed:recursion", c.Pos(fd.Pos()), fmt.Sprintf("isParamAllowed does not refuse a type it meets again on the current path (hit returns an error: %v, path set: %v): a recursive object is admitted and panics the generated client, a recursive array sends the templates into unbounded recursion", hitErr, pops))
		}
	}
	// every function that enables the "uri" feature also calls isParamAllowed (itself or its enclosing function)
	for _, f := range genPkg.Syntax {
		for _, d := range f.Decls {
			fdecl, ok := d.(*ast.FuncDecl)
			if !ok || fdecl.Body == nil {
				continue
			}
			adds, checks := 0, 0
			var addPos token.Pos
			ast.Inspect(fdecl.Body, func(n ast.Node) bool {
				ce, ok := n.(*ast.CallExpr)
				if !ok {
					return true
				}
				if se, ok := ce.Fun.(*ast.SelectorExpr); ok && se.Sel.Name == "AddFeature" && len(ce.Args) == 1 {
					if v := genPkg.TypesInfo.Types[ce.Args[0]].Value; v != nil && v.Kind() == constant.String && constant.StringVal(v) == "uri" {
						adds++
						addPos = ce.Pos()
					}
				}
				if id, ok := ce.Fun.(*ast.Ident); ok && id.Name == "isParamAllowed" {
					checks++
				}
				return true
			})
			if adds == 0 || fdecl.Name.Name == "isParamAllowed" {
				continue
			}
			if checks > 0 {
				r.Pass(fmt.Sprintf("%s enables the uri feature and calls isParamAllowed", fdecl.Name.Name))
			} else {
				r.Fail("uri-feature:"+fdecl.Name.Name, c.Pos(addPos), fdecl.Name.Name+" enables the uri feature for a type without calling isParamAllowed")
			}
		}
	}
}

func terminates(b *ast.BlockStmt) bool {
	if b == nil || len(b.List) == 0 {
		return false
	}
	_, ok := b.List[len(b.List)-1].(*ast.ReturnStmt)
	return ok
}

func checkCookieEscape(c *core.Ctx, pkg *packages.Package, r *core.Rule) {
	// cookieEscapeChars: [256]bool-like table or function; hex alphabet; ishex/unhex
	var tblInit ast.Expr
	var hexConst string
	for _, f := range pkg.Syntax {
		for _, d := range f.Decls {
			gd, ok := d.(*ast.GenDecl)
			if !ok {
				continue
			}
			for _, sp := range gd.Specs {
				vs, ok := sp.(*ast.ValueSpec)
				if !ok {
					continue
				}
				for i, n := range vs.Names {
					if n.Name == "cookieEscapeChars" && i < len(vs.Values) {
						tblInit = vs.Values[i]
					}
				}
			}
		}
	}
	// the hex alphabet: a 16-byte string constant indexed in escapeCookie
	ast.Inspect(funcOrNil(pkg, "escapeCookie"), func(n ast.Node) bool {
		if ix, ok := n.(*ast.IndexExpr); ok {
			if v := pkg.TypesInfo.Types[ix.X].Value; v != nil && v.Kind() == constant.String && len(constant.StringVal(v)) == 16 {
				hexConst = constant.StringVal(v)
			}
		}
		return true
	})
	if tblInit == nil {
		r.Undecided("anchor:cookieEscapeChars", "-", "uri.cookieEscapeChars table not found")
		return
	}
	vals, err := byteset.ArrayLit(pkg.TypesInfo, tblInit)
	if err != nil {
		r.Undecided("cookieEscapeChars", c.Pos(tblInit.Pos()), "table is not a constant array literal: "+err.Error())
		return
	}
	esc := map[byte]bool{}
	for i, v := range vals {
		if v.Kind() == constant.Bool && constant.BoolVal(v) {
			esc[byte(i)] = true
		}
		if v.Kind() == constant.Int && constant.Sign(v) != 0 {
			esc[byte(i)] = true
		}
	}
	if esc['%'] {
		r.Pass("cookie escaping escapes '%' itself")
	} else {
		r.Fail("cookie:percent", c.Pos(tblInit.Pos()), "'%' is not escaped: a literal %41 in a value is decoded to A by the receiver")
	}
	// RFC 6265 cookie-octet = %x21 / %x23-2B / %x2D-3A / %x3C-5B / %x5D-7E ; everything else must be escaped
	var missing []byte
	for i := 0; i < 256; i++ {
		b := byte(i)
		octet := b == 0x21 || (b >= 0x23 && b <= 0x2B) || (b >= 0x2D && b <= 0x3A) || (b >= 0x3C && b <= 0x5B) || (b >= 0x5D && b <= 0x7E)
		if !octet && !esc[b] && i < len(vals) {
			missing = append(missing, b)
		}
	}
	if len(missing) == 0 {
		r.Pass(fmt.Sprintf("every ASCII byte outside RFC 6265 cookie-octet is escaped (%d bytes escaped in total)", len(esc)))
	} else {
		r.Fail("cookie:octets", c.Pos(tblInit.Pos()), "bytes outside RFC 6265 cookie-octet are not escaped: "+byteSetString(missing)+" (net/http drops or quotes them)")
	}
	if hexConst == "" {
		r.Undecided("cookie:hex", "-", "hex alphabet of escapeCookie not found")
		return
	}
	opt := byteset.Options{Callee: func(o types.Object) *ast.FuncDecl {
		if o == nil || o.Pkg() == nil || o.Pkg().Path() != pkgURI {
			return nil
		}
		return funcDecl(pkg, o.Name())
	}}
	ih, uh := funcDecl(pkg, "ishex"), funcDecl(pkg, "unhex")
	if ih == nil || uh == nil {
		r.Undecided("cookie:ishex", "-", "uri.ishex/unhex not found")
		return
	}
	it, err1 := byteset.EvalFunc(pkg.TypesInfo, ih, opt)
	ut, err2 := byteset.EvalFunc(pkg.TypesInfo, uh, opt)
	if err1 != nil || err2 != nil {
		r.Undecided("cookie:tables", "-", "ishex/unhex outside the constant-folding fragment")
		return
	}
	ok := true
	for i := 0; i < 16; i++ {
		if !it.Bool[hexConst[i]] || ut.Byte[hexConst[i]] != int64(i) {
			ok = false
		}
	}
	if ok {
		r.Pass(fmt.Sprintf("escape alphabet %q: ishex accepts every digit and unhex(alphabet[i]) == i", hexConst))
	} else {
		r.Fail("cookie:hex-inverse", c.Pos(ih.Pos()), fmt.Sprintf("the escape alphabet %q is not inverted by ishex/unhex", hexConst))
	}
}

func funcOrNil(pkg *packages.Package, name string) ast.Node {
	if fd := funcDecl(pkg, name); fd != nil {
		return fd
	}
	return &ast.BlockStmt{}
}

// kindCtors names, for kinds that schema generation never produces, the only
// constructor of that kind (ir/constructors.go).
var kindCtors = map[string]string{"KindInterface": "Interface", "KindStream": "Stream"}

// ctorUnreachableFromSchemaGen: the constructor is not reachable from
// (*Generator).generateSchema in the CHA call graph restricted to the module.
func ctorUnreachableFromSchemaGen(c *core.Ctx, ctor string) (bool, string) {
	prog, err := c.Program("./gen")
	if err != nil {
		return false, err.Error()
	}
	root := prog.Func(pkgGen, "Generator.generateSchema")
	target := prog.Func(pkgIR, ctor)
	if root == nil || target == nil {
		return false, "anchor missing"
	}
	// the only composite literal with this kind is inside the constructor: checked by kind constant use
	reach := core.Reachable(prog.CHA(), []*ssa.Function{root}, func(e *callgraph.Edge) bool { return core.InModule(e.Callee.Func) })
	if reach.Set[target] {
		return false, "ir." + ctor + " is reachable from generateSchema: " + reach.Path(target)
	}
	return true, "its only constructor ir." + ctor + " is not reachable from (*Generator).generateSchema (CHA call graph), so no parameter type has this kind"
}

// paramNameOfType: the name of the first parameter of fd whose type text starts with prefix (so that a renamed
// parameter is still the parameter); def if there is none.
func paramNameOfType(fd *ast.FuncDecl, prefix, def string) string {
	if fd == nil || fd.Type.Params == nil {
		return def
	}
	for _, f := range fd.Type.Params.List {
		if strings.HasPrefix(types.ExprString(f.Type), prefix) {
			for _, n := range f.Names {
				return n.Name
			}
		}
	}
	return def
}
