package rules

import (
	"go/token"
	"sort"
	"strings"

	"golang.org/x/tools/go/ssa"

	"ogenverif/internal/core"
)

// fixtureNames selects the fixtures for the tier.
func fixtureNames(c *core.Ctx) []string {
	if c.Thorough() {
		return nil // all
	}
	return core.QuickFixtures
}

// handlerInfo is the recognised structure of one generated
// handle<Op>Request method.
type handlerInfo struct {
	fx  *core.Fixture
	fn  *ssa.Function
	op  string
	key string // fixture/op

	security    []*ssa.Call           // s.security<X>(…)
	requirement *ssa.Call             // call of the requirement closure (func() bool)
	params      *ssa.Call             // decode<Op>Params
	request     *ssa.Call             // s.decode<Op>Request
	handler     []ssa.CallInstruction // s.h.<Op>(…), in fn or in its closures
	writers     []ssa.CallInstruction // ErrorHandler / encodeErrorResponse / encode<Op>Response in fn
	encodeResp  *ssa.Call
}

func isErrorHandlerCall(cc *ssa.CallCommon) bool {
	if cc.IsInvoke() || cc.StaticCallee() != nil {
		return false
	}
	return isFieldLoad(cc.Value, "ErrorHandler")
}

// handlersOf recognises the handlers of one expanded package.
func handlersOf(ex *core.Expansion, fx *core.Fixture) []*handlerInfo {
	pkg := ex.Prog.ByPath[fx.PkgPath]
	if pkg == nil {
		return nil
	}
	var out []*handlerInfo
	for _, fn := range core.PkgFuncs(ex.Prog.SSA, pkg) {
		if fn.Parent() != nil || fn.Signature.Recv() == nil {
			continue
		}
		name := fn.Name()
		if !strings.HasPrefix(name, "handle") || !strings.HasSuffix(name, "Request") {
			continue
		}
		op := strings.TrimSuffix(strings.TrimPrefix(name, "handle"), "Request")
		h := &handlerInfo{fx: fx, fn: fn, op: op, key: fx.Name + "/" + op}
		for _, f := range core.AllFuncs(fn) {
			for _, call := range core.Calls(f) {
				cc := call.Common()
				if cc.IsInvoke() && cc.Method.Name() == op {
					h.handler = append(h.handler, call)
					continue
				}
				if f != fn {
					continue
				}
				cl, isCall := call.(*ssa.Call)
				cal := cc.StaticCallee()
				switch {
				case isErrorHandlerCall(cc):
					h.writers = append(h.writers, call)
				case cal == nil:
				case cal.Name() == "encodeErrorResponse":
					h.writers = append(h.writers, call)
				case cal.Name() == "encode"+op+"Response":
					h.writers = append(h.writers, call)
					if isCall {
						h.encodeResp = cl
					}
				case strings.HasPrefix(cal.Name(), "security") && cal.Signature.Recv() != nil && isCall:
					h.security = append(h.security, cl)
				case cal.Name() == "decode"+op+"Params" && isCall:
					h.params = cl
				case cal.Name() == "decode"+op+"Request" && isCall:
					h.request = cl
				case cal.Parent() == fn && isCall && cal.Signature.Params().Len() == 0 && cal.Signature.Results().Len() == 1 && isBoolT(cal.Signature.Results().At(0).Type()):
					// the requirement closure: func() bool invoked immediately
					if len(h.security) > 0 {
						h.requirement = cl
					}
				}
			}
		}
		sort.Slice(h.security, func(i, j int) bool { return h.security[i].Pos() < h.security[j].Pos() })
		out = append(out, h)
	}
	return out
}

// blockOfInParent returns the block of fn (the outer function) at which an
// instruction of a nested closure is "positioned": the block of the
// MakeClosure that creates the closure.
func blockOfInParent(fn *ssa.Function, in ssa.Instruction) *ssa.BasicBlock {
	f := in.Parent()
	if f == fn {
		return in.Block()
	}
	for f != nil && f.Parent() != fn {
		f = f.Parent()
	}
	if f == nil {
		return nil
	}
	for _, b := range fn.Blocks {
		for _, i := range b.Instrs {
			if mc, ok := i.(*ssa.MakeClosure); ok && mc.Fn == f {
				return b
			}
		}
	}
	return nil
}

var _ = token.NoPos
