package rules

// General structural rules added after the second seeding round. Each states an invariant of a whole class of code
// (not of one function's text) and is hooked into the property whose clause it is a necessary condition of.

import (
	"fmt"
	"go/ast"
	"go/constant"
	"go/token"
	"go/types"
	"regexp/syntax"
	"sort"
	"strings"

	"golang.org/x/tools/go/ssa"

	"ogenverif/internal/core"
	"ogenverif/internal/panicob"
	"ogenverif/internal/ssaeval"
)

// onCycleWith reports whether block a lies on a CFG cycle that also contains block b (a reaches b and b reaches a).
func onCycleWith(a, b *ssa.BasicBlock) bool {
	return blockReaches(a, b) && blockReaches(b, a)
}

func blockReaches(from, to *ssa.BasicBlock) bool {
	seen := map[*ssa.BasicBlock]bool{}
	var walk func(x *ssa.BasicBlock) bool
	walk = func(x *ssa.BasicBlock) bool {
		for _, s := range x.Succs {
			if s == to {
				return true
			}
			if !seen[s] {
				seen[s] = true
				if walk(s) {
					return true
				}
			}
		}
		return false
	}
	return walk(from)
}

func inLoop(b *ssa.BasicBlock) bool { return blockReaches(b, b) }

// ---------------------------------------------------------------- untrusted sizes (C15)

// checkUntrustedSizes: a size handed to Grow / make that derives from http.Request.ContentLength (which is -1 for
// chunked or unknown-length bodies) must sit under a sign test of that value; otherwise the runtime panics on a
// request any client can send.
func checkUntrustedSizes(c *core.Ctx, r *core.Rule, prog *core.Prog) {
	n := 0
	for _, sp := range prog.SSAPkgs {
		if sp == nil || !core.InModulePath(sp.Pkg.Path()) {
			continue
		}
		for _, fn := range core.PkgFuncs(prog.SSA, sp) {
			for _, b := range fn.Blocks {
				for _, in := range b.Instrs {
					var size ssa.Value
					what := ""
					switch x := in.(type) {
					case *ssa.Call:
						if callee := x.Common().StaticCallee(); callee != nil && callee.Name() == "Grow" && callee.Signature.Recv() != nil && len(x.Common().Args) == 2 {
							size, what = x.Common().Args[1], core.FuncName(callee)
						}
					case *ssa.MakeSlice:
						size, what = x.Len, "make"
					}
					if size == nil {
						continue
					}
					src := contentLengthSource(size, 0)
					if src == nil {
						continue
					}
					n++
					guarded, bounded := false, false
					for d := b; d != nil; d = d.Idom() {
						if d == b {
							continue
						}
						iff, ok := d.Instrs[len(d.Instrs)-1].(*ssa.If)
						if !ok {
							continue
						}
						if bo, ok := iff.Cond.(*ssa.BinOp); ok {
							switch bo.Op {
							case token.GTR, token.GEQ, token.LSS, token.LEQ:
								xs, ys := contentLengthSource(bo.X, 0) != nil, contentLengthSource(bo.Y, 0) != nil
								if !xs && !ys {
									continue
								}
								other := bo.Y
								if ys && !xs {
									other = bo.X
								}
								if k, isK := core.ConstInt(other); isK && (k == 0 || k == 1 || k == -1) {
									guarded = true // sign test
								} else if !(xs && ys) {
									bounded = true // compared with a limit: a constant other than 0 / ±1, or a value that is not the length
								}
							}
						}
					}
					// min(n, limit) bounds as well
					if call, ok := size.(*ssa.Call); ok {
						if bi, ok := call.Common().Value.(*ssa.Builtin); ok && bi.Name() == "min" {
							bounded = true
						}
					}
					if cv, ok := size.(*ssa.Convert); ok {
						if call, ok := cv.X.(*ssa.Call); ok {
							if bi, ok := call.Common().Value.(*ssa.Builtin); ok && bi.Name() == "min" {
								bounded = true
							}
						}
					}
					key := "untrusted-size:" + core.FuncName(fn)
					if guarded && !bounded {
						r.Fail(key+":unbounded", c.Pos(in.Pos()), fmt.Sprintf("%s passes a size derived from the request's ContentLength to %s under a sign test only: the client chooses that number, a request that declares 2^63-1 bytes and sends ten makes the allocation panic (len out of range) before a byte is read — the connection is dropped without an answer", core.FuncName(fn), what))
						continue
					}
					if guarded {
						r.Pass(fmt.Sprintf("%s: %s(ContentLength) under a sign test and an upper limit", key, what))
					} else {
						r.Fail(key, c.Pos(in.Pos()), fmt.Sprintf("%s passes a size derived from the request's ContentLength to %s without testing its sign: a chunked (length -1) request panics the server", core.FuncName(fn), what))
					}
				}
			}
		}
	}
	r.Note("sizes derived from ContentLength: %d", n)
	if n == 0 {
		r.Pass("no allocation size is derived from ContentLength in the runtime packages")
	}
}

func contentLengthSource(v ssa.Value, depth int) ssa.Value {
	if depth > 6 {
		return nil
	}
	switch x := v.(type) {
	case *ssa.UnOp:
		if x.Op == token.MUL {
			if fa, ok := x.X.(*ssa.FieldAddr); ok {
				if st, ok := fa.X.Type().Underlying().(*types.Pointer).Elem().Underlying().(*types.Struct); ok && st.Field(fa.Field).Name() == "ContentLength" {
					return x
				}
			}
			return nil
		}
		return contentLengthSource(x.X, depth+1)
	case *ssa.Convert:
		return contentLengthSource(x.X, depth+1)
	case *ssa.BinOp:
		if s := contentLengthSource(x.X, depth+1); s != nil {
			return s
		}
		return contentLengthSource(x.Y, depth+1)
	case *ssa.Phi:
		for _, e := range x.Edges {
			if s := contentLengthSource(e, depth+1); s != nil {
				return s
			}
		}
	}
	return nil
}

// ---------------------------------------------------------------- fresh visited sets (C06 / C15)

// checkFreshVisitedSets: a recursive checker that takes a visited/memo map (func f(…, visited map[K]V) calling itself
// with the same map) answers for ONE root. Every call from outside must hand it a map allocated for that call: a
// make(map…) in the caller that is re-executed whenever the call is (same loop), not a field, not a map hoisted out of
// the loop over roots — otherwise what was visited for one root (in one context) is skipped for the next.
func checkFreshVisitedSets(c *core.Ctx, r *core.Rule, prog *core.Prog, pkgs ...string) {
	sites := 0
	for _, pp := range pkgs {
		sp := prog.ByPath[pp]
		if sp == nil {
			continue
		}
		for _, fn := range core.PkgFuncs(prog.SSA, sp) {
			// recursive functions with a map parameter they pass on unchanged
			mapParam := -1
			for _, call := range core.Calls(fn) {
				if call.Common().StaticCallee() != fn {
					continue
				}
				for i, a := range call.Common().Args {
					if p, ok := a.(*ssa.Parameter); ok && i < len(fn.Params) && fn.Params[i] == p {
						if _, isMap := p.Type().Underlying().(*types.Map); isMap {
							mapParam = i
						}
					}
				}
			}
			if mapParam < 0 {
				continue
			}
			// callers
			for _, caller := range core.PkgFuncs(prog.SSA, sp) {
				if caller == fn {
					continue
				}
				for _, call := range core.Calls(caller) {
					if call.Common().StaticCallee() != fn || mapParam >= len(call.Common().Args) {
						continue
					}
					sites++
					arg := call.Common().Args[mapParam]
					key := fmt.Sprintf("visited-set:%s→%s", fnKeyFull(caller), fn.Name())
					mk, ok := arg.(*ssa.MakeMap)
					// a helper of the walk that hands its own map parameter on (the struct-field loop of isParamAllowed moved
					// into a function of its own): fine when every call site of the helper passes the walk's own set (a
					// parameter of the recursive function) or a fresh map
					if prm, isP := arg.(*ssa.Parameter); !ok && isP && prm.Parent() == caller {
						idx := -1
						for i, q := range caller.Params {
							if q == prm {
								idx = i
							}
						}
						nSites, allOK := 0, idx >= 0
						for _, c2 := range core.PkgFuncs(prog.SSA, sp) {
							for _, call2 := range core.Calls(c2) {
								if call2.Common().StaticCallee() != caller || idx >= len(call2.Common().Args) {
									continue
								}
								nSites++
								switch a2 := call2.Common().Args[idx].(type) {
								case *ssa.MakeMap:
								case *ssa.Parameter:
									if a2.Parent() != fn && a2.Parent() != caller {
										allOK = false
									}
								default:
									allOK = false
								}
							}
						}
						if allOK && nSites > 0 {
							r.Pass(fmt.Sprintf("%s: a helper of the walk that hands on the set it was given", key))
							continue
						}
					}
					switch {
					case !ok:
						r.Fail(key, c.Pos(call.Pos()), fmt.Sprintf("%s calls %s with a visited set that is not allocated for this call (%s): what was visited for an earlier root, possibly in another context, is skipped for this one", caller.Name(), fn.Name(), describeValue(arg)))
					case inLoop(call.Block()) && !(mk.Block() == call.Block() || onCycleWith(mk.Block(), call.Block())):
						r.Fail(key, c.Pos(call.Pos()), fmt.Sprintf("%s allocates the visited set of %s once and reuses it for every iteration of the loop that calls it: entries of one root leak into the next", caller.Name(), fn.Name()))
					default:
						r.Pass(fmt.Sprintf("%s: fresh map per call", key))
					}
				}
			}
		}
	}
	if sites == 0 {
		r.Note("no recursive function with a pass-through map parameter found in %v", pkgs)
	}
}

func describeValue(v ssa.Value) string {
	switch x := v.(type) {
	case *ssa.UnOp:
		if fa, ok := x.X.(*ssa.FieldAddr); ok {
			if st, ok := fa.X.Type().Underlying().(*types.Pointer).Elem().Underlying().(*types.Struct); ok {
				return "field " + st.Field(fa.Field).Name()
			}
		}
		return "a loaded value"
	case *ssa.Parameter:
		return "parameter " + x.Name()
	case *ssa.Phi:
		return "a merged value"
	}
	return strings.TrimSpace(v.String())
}

// ---------------------------------------------------------------- defer inside a loop releasing a per-iteration mark (C07)

// checkDeferredReleaseInLoop: `visited[k] = …` … `defer delete(visited, k)` inside a loop keeps every mark until the
// function returns: siblings processed later see earlier siblings as still "in progress" and a DAG is reported as a cycle.
func checkDeferredReleaseInLoop(c *core.Ctx, r *core.Rule, prog *core.Prog, pkgs ...string) {
	n := 0
	for _, pp := range pkgs {
		sp := prog.ByPath[pp]
		if sp == nil {
			continue
		}
		for _, fn := range core.PkgFuncs(prog.SSA, sp) {
			for _, b := range fn.Blocks {
				for _, in := range b.Instrs {
					df, ok := in.(*ssa.Defer)
					if !ok {
						continue
					}
					isDelete := false
					if bi, ok := df.Common().Value.(*ssa.Builtin); ok && bi.Name() == "delete" {
						isDelete = true
					}
					if mc, ok := df.Common().Value.(*ssa.MakeClosure); ok {
						if g, ok := mc.Fn.(*ssa.Function); ok {
							for _, call := range core.Calls(g) {
								if bi, ok := call.Common().Value.(*ssa.Builtin); ok && bi.Name() == "delete" {
									isDelete = true
								}
								if callee := call.Common().StaticCallee(); callee != nil && (callee.Name() == "Delete" || callee.Name() == "delete") {
									isDelete = true
								}
							}
						}
					}
					if callee := df.Common().StaticCallee(); callee != nil && callee.Name() == "Delete" {
						isDelete = true
					}
					if !isDelete {
						continue
					}
					n++
					key := "deferred-release:" + fnKeyFull(fn)
					if inLoop(b) {
						r.Fail(key, c.Pos(df.Pos()), fmt.Sprintf("%s defers the release of an in-progress mark inside a loop: the mark of each element stays set while its later siblings are processed, so a shared (DAG) target is reported as a cycle", fn.Name()))
					} else {
						r.Pass(fmt.Sprintf("%s: deferred release is per call, not per loop iteration", key))
					}
				}
			}
		}
	}
	r.Note("deferred releases of marks examined: %d", n)
}

// ---------------------------------------------------------------- reference-decided inequality (C07)

// checkRefNeverDecidesInequality: in comparators of two schemas a $ref may prove equality early (same reference → same
// schema) but can never prove inequality: a referenced schema and an inlined copy of its target are the same schema.
func checkRefNeverDecidesInequality(c *core.Ctx, r *core.Rule, prog *core.Prog) {
	sp := prog.ByPath[pkgGen]
	if sp == nil {
		return
	}
	n := 0
	for _, fn := range core.PkgFuncs(prog.SSA, sp) {
		// functions with two *jsonschema.Schema parameters returning bool
		if fn.Signature.Results().Len() != 1 {
			continue
		}
		if bt, ok := fn.Signature.Results().At(0).Type().Underlying().(*types.Basic); !ok || bt.Kind() != types.Bool {
			continue
		}
		cnt := 0
		for _, p := range fn.Params {
			if ptr, ok := p.Type().Underlying().(*types.Pointer); ok {
				if nm, ok := ptr.Elem().(*types.Named); ok && nm.Obj().Name() == "Schema" {
					cnt++
				}
			}
		}
		if cnt != 2 {
			continue
		}
		n++
		bad := token.NoPos
		for _, b := range fn.Blocks {
			ret, ok := b.Instrs[len(b.Instrs)-1].(*ssa.Return)
			if !ok {
				continue
			}
			// returns the result of a Ref comparison, or false under a Ref-dependent branch
			res := ret.Results[0]
			if dependsOnRefField(res, 0) {
				// `return a.Ref == b.Ref` — fine only if it can only be reached when both are references … which still
				// decides inequality for two different names of equal schemas: flagged
				bad = ret.Pos()
			}
			if cst, ok := res.(*ssa.Const); ok && cst.Value != nil && cst.Value.String() == "false" {
				for d := b.Idom(); d != nil; d = d.Idom() {
					iff, ok := d.Instrs[len(d.Instrs)-1].(*ssa.If)
					if !ok {
						continue
					}
					// only the branch immediately deciding this return
					if (d.Succs[0] == b || d.Succs[1] == b) && dependsOnRefField(iff.Cond, 0) {
						bad = ret.Pos()
					}
				}
			}
		}
		key := "ref-decides-inequality:" + fnKeyFull(fn)
		if bad != token.NoPos {
			r.Fail(key, c.Pos(bad), fmt.Sprintf("%s answers 'different' because of the $ref fields alone: a referenced schema and the same schema written inline (or under another component name) stop comparing equal, so inlining a reference changes what is generated", fn.Name()))
		} else {
			r.Pass(fmt.Sprintf("%s: $ref only short-cuts to 'equal'", key))
		}
	}
	if n == 0 {
		r.Note("no two-schema comparator found in package gen")
	}
}

func dependsOnRefField(v ssa.Value, depth int) bool {
	if depth > 5 {
		return false
	}
	switch x := v.(type) {
	case *ssa.BinOp:
		return dependsOnRefField(x.X, depth+1) || dependsOnRefField(x.Y, depth+1)
	case *ssa.UnOp:
		if x.Op == token.MUL {
			if fa, ok := x.X.(*ssa.FieldAddr); ok {
				if st, ok := fa.X.Type().Underlying().(*types.Pointer).Elem().Underlying().(*types.Struct); ok && st.Field(fa.Field).Name() == "Ref" {
					return true
				}
				return dependsOnRefField(fa.X, depth+1)
			}
			return false
		}
		return dependsOnRefField(x.X, depth+1)
	case *ssa.Call:
		// a.Ref.IsZero()
		for _, a := range x.Common().Args {
			if dependsOnRefField(a, depth+1) {
				return true
			}
		}
	case *ssa.Field:
		if st, ok := x.X.Type().Underlying().(*types.Struct); ok && st.Field(x.Field).Name() == "Ref" {
			return true
		}
		return dependsOnRefField(x.X, depth+1)
	case *ssa.Phi:
		for _, e := range x.Edges {
			if dependsOnRefField(e, depth+1) {
				return true
			}
		}
	}
	return false
}

// ---------------------------------------------------------------- reference identity is (location, pointer) (C07)

// checkRefIdentityWhole: two references are the same only if document location AND pointer agree. A comparison of the
// Ptr component of a reference key that is not accompanied by a comparison of its Loc in the same function is a
// projection that identifies components of different files.
func checkRefIdentityWhole(c *core.Ctx, r *core.Rule, prog *core.Prog, pkgs ...string) {
	n := 0
	for _, pp := range pkgs {
		sp := prog.ByPath[pp]
		if sp == nil {
			continue
		}
		for _, fn := range core.PkgFuncs(prog.SSA, sp) {
			var ptrCmp []token.Pos
			locCmp := false
			for _, b := range fn.Blocks {
				for _, in := range b.Instrs {
					bo, ok := in.(*ssa.BinOp)
					if !ok || (bo.Op != token.EQL && bo.Op != token.NEQ) {
						continue
					}
					fx, fy := refKeyField(bo.X), refKeyField(bo.Y)
					if fx == "Ptr" && fy == "Ptr" {
						ptrCmp = append(ptrCmp, bo.Pos())
					}
					if fx == "Loc" && fy == "Loc" {
						locCmp = true
					}
				}
			}
			if len(ptrCmp) == 0 {
				continue
			}
			n++
			key := "ref-projection:" + fnKeyFull(fn)
			if locCmp {
				r.Pass(fmt.Sprintf("%s: pointer and location compared together", key))
			} else {
				r.Fail(key, c.Pos(ptrCmp[0]), fmt.Sprintf("%s decides that two references are the same by their pointer alone, ignoring the document they point into: components with the same pointer in different files are identified", fn.Name()))
			}
		}
	}
	r.Note("functions comparing the Ptr of two reference keys: %d", n)
}

func refKeyField(v ssa.Value) string {
	switch x := v.(type) {
	case *ssa.UnOp:
		if x.Op == token.MUL {
			if fa, ok := x.X.(*ssa.FieldAddr); ok {
				owner := fa.X.Type().Underlying().(*types.Pointer).Elem()
				if n, ok := types.Unalias(owner).(*types.Named); ok && (n.Obj().Name() == "RefKey" || n.Obj().Name() == "refKey") {
					return owner.Underlying().(*types.Struct).Field(fa.Field).Name()
				}
			}
		}
	case *ssa.Field:
		owner := x.X.Type()
		if n, ok := types.Unalias(owner).(*types.Named); ok && (n.Obj().Name() == "RefKey" || n.Obj().Name() == "refKey") {
			return owner.Underlying().(*types.Struct).Field(x.Field).Name()
		}
	}
	return ""
}

// ---------------------------------------------------------------- traversal completeness of the recursion check (C07)

// checkRecursionWalkComplete: ir.Type.recursive decides where a pointer must break a cycle of by-value struct fields.
// Its loop over t.Fields must reach the recursive call for every field: no branch on a property of the field other
// than its Type may skip an element, or a cycle through such a field is missed and the package has an invalid
// recursive type.
func checkRecursionWalkComplete(c *core.Ctx, r *core.Rule, prog *core.Prog) {
	fn := prog.Func(pkgIR, "Type.recursive")
	if fn == nil {
		r.Undecided("anchor:ir.Type.recursive", "-", "gen/ir.(*Type).recursive not found")
		return
	}
	found := false
	for _, g := range core.AllFuncs(fn) {
		for _, b := range g.Blocks {
			for _, in := range b.Instrs {
				call, ok := in.(*ssa.Call)
				if !ok || call.Common().StaticCallee() != fn {
					continue
				}
				// some argument is f.Type for a *Field f (the loop element / callback parameter)
				var elem ssa.Value
				for _, a := range call.Common().Args {
					ld, ok := a.(*ssa.UnOp)
					if !ok || ld.Op != token.MUL {
						continue
					}
					fa, ok := ld.X.(*ssa.FieldAddr)
					if !ok {
						continue
					}
					owner := fa.X.Type().Underlying().(*types.Pointer).Elem()
					if n, ok := owner.(*types.Named); ok && n.Obj().Name() == "Field" {
						elem = fa.X
					}
				}
				if elem == nil {
					continue
				}
				found = true
				bad := token.NoPos
				for d := b.Idom(); d != nil; d = d.Idom() {
					iff, ok := d.Instrs[len(d.Instrs)-1].(*ssa.If)
					if !ok {
						continue
					}
					if name := readsOtherFieldOf(iff.Cond, elem, "Type", 0); name != "" {
						bad = iff.Pos()
						if bad == token.NoPos {
							bad = call.Pos()
						}
					}
				}
				if bad != token.NoPos {
					r.Fail("recursion-walk-skips-fields", c.Pos(bad), "ir.Type.recursive skips some struct fields (a branch on a field property other than its Type guards the recursive call): a cycle through a skipped field (inline oneOf holder, tuple element) is not broken by a pointer and the generated package has an invalid recursive type")
				} else {
					r.Pass("ir.Type.recursive: every struct field is followed")
				}
			}
		}
	}
	if !found {
		r.Undecided("anchor:ir.Type.recursive:fields", c.Pos(fn.Pos()), "no recursive call on a field's Type found in ir.Type.recursive")
	}
}

func readsOtherFieldOf(v ssa.Value, elem ssa.Value, allowed string, depth int) string {
	if depth > 5 {
		return ""
	}
	switch x := v.(type) {
	case *ssa.BinOp:
		if s := readsOtherFieldOf(x.X, elem, allowed, depth+1); s != "" {
			return s
		}
		return readsOtherFieldOf(x.Y, elem, allowed, depth+1)
	case *ssa.UnOp:
		if x.Op == token.MUL {
			if fa, ok := x.X.(*ssa.FieldAddr); ok && (fa.X == elem || sameLoadOrValue(fa.X, elem)) {
				st := fa.X.Type().Underlying().(*types.Pointer).Elem().Underlying().(*types.Struct)
				if name := st.Field(fa.Field).Name(); name != allowed {
					return name
				}
			}
			return ""
		}
		return readsOtherFieldOf(x.X, elem, allowed, depth+1)
	case *ssa.Call:
		for _, a := range x.Common().Args {
			if s := readsOtherFieldOf(a, elem, allowed, depth+1); s != "" {
				return s
			}
		}
	}
	return ""
}

// ---------------------------------------------------------------- generated parameter decoders (C06, S2)

// checkParamDecoderShapes (AST over the expansions):
//
//	(a) path arguments are unescaped exactly when the router says they are still escaped: every `url.PathUnescape`
//	    in decode<Op>Params sits directly under `if argsEscaped`;
//	(b) an object decoder (DecodeURI of a struct, the closure never reads one scalar) for form+explode or deepObject
//	    query style has the list of member names in its config: without Fields the server cannot tell the object's
//	    members from other parameters and HasParam reports it absent.
func checkParamDecoderShapes(c *core.Ctx, r *core.Rule, ex *core.Expansion, deepFreeFormOK bool) {
	for _, fx := range ex.Fixtures {
		p := ex.Prog.PkgBy[fx.PkgPath]
		if p == nil {
			continue
		}
		for _, f := range p.Syntax {
			for _, d := range f.Decls {
				fd, ok := d.(*ast.FuncDecl)
				if !ok || fd.Body == nil || fd.Recv != nil || !strings.HasPrefix(fd.Name.Name, "decode") || !strings.HasSuffix(fd.Name.Name, "Params") {
					continue
				}
				// (a)
				var stack []ast.Node
				ast.Inspect(fd.Body, func(n ast.Node) bool {
					if n == nil {
						stack = stack[:len(stack)-1]
						return true
					}
					stack = append(stack, n)
					ce, ok := n.(*ast.CallExpr)
					if !ok || types.ExprString(ce.Fun) != "url.PathUnescape" {
						return true
					}
					cond := ""
					for i := len(stack) - 2; i >= 0; i-- {
						if ifs, ok := stack[i].(*ast.IfStmt); ok {
							// the unescape is in the body (not in the condition / init of this if)
							if ifs.Body.Pos() <= ce.Pos() && ce.End() <= ifs.Body.End() {
								cond = types.ExprString(ifs.Cond)
								break
							}
						}
						if _, ok := stack[i].(*ast.FuncLit); ok {
							break
						}
					}
					key := fmt.Sprintf("%s/%s", fx.Name, fd.Name.Name)
					if cond == "argsEscaped" {
						r.Ob(true, "")
					} else {
						r.Fail("unescape-guard:"+key, c.Pos(ce.Pos()), fmt.Sprintf("%s unescapes a path argument under the condition `%s` instead of exactly `argsEscaped`: a value the router already took from the decoded path is unescaped a second time (%%41 becomes A, %%2C becomes a delimiter)", fd.Name.Name, cond))
					}
					return true
				})
				// (b)
				for _, st := range fd.Body.List {
					ifs, ok := st.(*ast.IfStmt)
					if !ok || ifs.Init == nil {
						continue
					}
					as, ok := ifs.Init.(*ast.AssignStmt)
					if !ok || len(as.Rhs) != 1 {
						continue
					}
					call, ok := as.Rhs[0].(*ast.CallExpr)
					if !ok {
						continue
					}
					lit, ok := call.Fun.(*ast.FuncLit)
					if !ok {
						continue
					}
					style, explode, name := "", "", ""
					hasFields := false
					isQuery := false
					for _, s2 := range lit.Body.List {
						a2, ok := s2.(*ast.AssignStmt)
						if !ok || len(a2.Rhs) != 1 {
							continue
						}
						cl, ok := a2.Rhs[0].(*ast.CompositeLit)
						if !ok || !strings.HasSuffix(types.ExprString(cl.Type), "QueryParameterDecodingConfig") {
							continue
						}
						isQuery = true
						for _, e := range cl.Elts {
							if kv, ok := e.(*ast.KeyValueExpr); ok {
								switch types.ExprString(kv.Key) {
								case "Style":
									style = types.ExprString(kv.Value)
								case "Explode":
									explode = types.ExprString(kv.Value)
								case "Name":
									name, _ = strLit(kv.Value)
								case "Fields":
									hasFields = types.ExprString(kv.Value) != "nil"
								}
							}
						}
					}
					if !isQuery {
						continue
					}
					objDecode, scalar := false, false
					ast.Inspect(lit.Body, func(m ast.Node) bool {
						if ce, ok := m.(*ast.CallExpr); ok {
							if sel, ok := ce.Fun.(*ast.SelectorExpr); ok {
								switch sel.Sel.Name {
								case "DecodeURI", "DecodeFields":
									objDecode = true
								case "DecodeValue", "DecodeArray":
									scalar = true
								}
							}
						}
						return true
					})
					needs := objDecode && !scalar && ((style == "uri.QueryStyleForm" && explode == "true") || style == "uri.QueryStyleDeepObject")
					if !needs {
						continue
					}
					key := fmt.Sprintf("%s/%s:%s", fx.Name, fd.Name.Name, name)
					if hasFields {
						r.Pass(fmt.Sprintf("%s: object decoder has its member list", key))
					} else if style == "uri.QueryStyleDeepObject" && deepFreeFormOK {
						r.Pass(fmt.Sprintf("%s: free-form deepObject decoder; HasParam takes every name[key] (hasparam-deepobject:fields=0)", key))
					} else {
						r.Fail("object-without-fields:"+key, c.Pos(ifs.Pos()), fmt.Sprintf("%s decodes the object parameter %q (%s, explode=%s) without a Fields list: the server cannot find the object's members among the query keys and treats the parameter as absent, dropping what the client sent", fd.Name.Name, name, style, explode))
					}
				}
			}
		}
	}
}

// ---------------------------------------------------------------- one-sided normalisation and buffer reuse in uri (C06)

var valueAltering = map[string]bool{
	"strings.TrimSpace": true, "strings.Trim": true, "strings.TrimLeft": true, "strings.TrimRight": true, "strings.TrimPrefix": false,
	"strings.ToLower": true, "strings.ToUpper": true, "strings.Title": true, "strings.TrimFunc": true,
	"bytes.TrimSpace": true, "strings.Fields": true,
}

// checkUriSidesSymmetric:
//
//	(a) decoders of package uri do not normalise element values (TrimSpace, case folding …): the encoder neither
//	    refuses nor escapes such values, so the normalisation silently changes what was sent;
//	(b) a []string that ends up in url.Values / http.Header is not a buffer of the encoder that is re-sliced to [:0]
//	    and reused: the stored slice would be overwritten by the next parameter.
func checkUriSidesSymmetric(c *core.Ctx, r *core.Rule, prog *core.Prog) {
	sp := prog.ByPath[pkgURI]
	if sp == nil {
		r.Undecided("load:uri", "-", "package uri not loaded")
		return
	}
	nDec := 0
	// fields of structs in uri that are reset by re-slicing to zero length
	reset := map[*types.Var]token.Pos{}
	for _, fn := range core.PkgFuncs(prog.SSA, sp) {
		for _, b := range fn.Blocks {
			for _, in := range b.Instrs {
				sl, ok := in.(*ssa.Slice)
				if !ok || sl.High == nil {
					continue
				}
				if k, ok := core.ConstInt(sl.High); !ok || k != 0 {
					continue
				}
				if ld, ok := sl.X.(*ssa.UnOp); ok && ld.Op == token.MUL {
					if fa, ok := ld.X.(*ssa.FieldAddr); ok {
						if st, ok := fa.X.Type().Underlying().(*types.Pointer).Elem().Underlying().(*types.Struct); ok {
							reset[st.Field(fa.Field)] = sl.Pos()
						}
					}
				}
			}
		}
	}
	// decoder side: decoder methods / Decode* functions and everything of package uri they reach through static calls
	decoderSide := map[*ssa.Function]bool{}
	var reachDec func(f *ssa.Function)
	reachDec = func(f *ssa.Function) {
		if f == nil || decoderSide[f] || f.Blocks == nil || core.FuncPkgPath(f) != pkgURI {
			return
		}
		decoderSide[f] = true
		for _, af := range f.AnonFuncs {
			reachDec(af)
		}
		for _, call := range core.Calls(f) {
			reachDec(call.Common().StaticCallee())
		}
	}
	for _, fn := range core.PkgFuncs(prog.SSA, sp) {
		recv := ""
		if fn.Signature.Recv() != nil {
			recv = recvName(fn.Signature.Recv().Type())
		}
		if strings.Contains(strings.ToLower(recv), "decoder") || strings.HasPrefix(fn.Name(), "Decode") || strings.HasPrefix(fn.Name(), "decode") {
			reachDec(fn)
		}
	}
	for _, fn := range core.PkgFuncs(prog.SSA, sp) {
		isDecoder := decoderSide[fn]
		for _, b := range fn.Blocks {
			for _, in := range b.Instrs {
				switch x := in.(type) {
				case *ssa.Call:
					if !isDecoder {
						continue
					}
					name := core.CalleeName(x.Common())
					if valueAltering[name] {
						nDec++
						r.Fail("decoder-normalises:"+core.FuncName(fn)+":"+name, c.Pos(x.Pos()), fmt.Sprintf("%s applies %s to a received value: the encoder accepts and transmits the un-normalised value (it neither refuses nor escapes it), so the receiver gets a different value than was sent", core.FuncName(fn), name))
					}
				case *ssa.MapUpdate:
					// storing into url.Values / http.Header
					nt, ok := types.Unalias(x.Map.Type()).(*types.Named)
					if !ok || nt.Obj().Pkg() == nil || !(nt.Obj().Pkg().Path() == "net/url" && nt.Obj().Name() == "Values" || nt.Obj().Pkg().Path() == "net/http" && nt.Obj().Name() == "Header") {
						continue
					}
					if fv, pos := reusedBuffer(x.Value, reset, 0); fv != nil {
						r.Fail("stored-buffer-reused:"+core.FuncName(fn)+":"+fv.Name(), c.Pos(x.Pos()), fmt.Sprintf("%s stores a slice that shares its backing array with the field %s, which is reset with [:0] (%s) and filled again for the next parameter: the values stored for this parameter are overwritten", core.FuncName(fn), fv.Name(), c.Pos(pos)))
					} else {
						r.Pass(core.FuncName(fn) + ": slice stored into the request is not a reused buffer")
					}
				}
			}
		}
	}
	if nDec == 0 {
		r.Pass("uri decoders apply no value-altering normalisation to received values")
	}
}

func reusedBuffer(v ssa.Value, reset map[*types.Var]token.Pos, depth int) (*types.Var, token.Pos) {
	if depth > 8 {
		return nil, token.NoPos
	}
	switch x := v.(type) {
	case *ssa.UnOp:
		if x.Op == token.MUL {
			if fa, ok := x.X.(*ssa.FieldAddr); ok {
				if st, ok := fa.X.Type().Underlying().(*types.Pointer).Elem().Underlying().(*types.Struct); ok {
					fv := st.Field(fa.Field)
					if pos, ok := reset[fv]; ok {
						return fv, pos
					}
				}
			}
		}
	case *ssa.Slice:
		return reusedBuffer(x.X, reset, depth+1)
	case *ssa.Phi:
		for _, e := range x.Edges {
			if fv, pos := reusedBuffer(e, reset, depth+1); fv != nil {
				return fv, pos
			}
		}
	case *ssa.Call:
		// append(buf, …) may return buf's array
		if bi, ok := x.Common().Value.(*ssa.Builtin); ok && bi.Name() == "append" {
			return reusedBuffer(x.Common().Args[0], reset, depth+1)
		}
		// a callee that returns one of its fields / parameters: follow static callees one level
		if callee := x.Common().StaticCallee(); callee != nil && callee.Blocks != nil && core.InModule(callee) && depth < 4 {
			for _, b := range callee.Blocks {
				if ret, ok := b.Instrs[len(b.Instrs)-1].(*ssa.Return); ok && len(ret.Results) > 0 {
					if fv, pos := reusedBuffer(ret.Results[0], reset, depth+2); fv != nil {
						return fv, pos
					}
				}
			}
		}
	case *ssa.Field:
		return reusedBuffer(x.X, reset, depth+1)
	case *ssa.Parameter:
		// follow into callers: not done (reported by the caller's own MapUpdate if it stores it)
	}
	return nil, token.NoPos
}

// ---------------------------------------------------------------- error handler after an encoder (C15, S2)

// checkErrorHandlerAfterEncoder: once a response encoder (encode<Op>Response / encodeErrorResponse) ran, the header may
// be on the wire. The generated handlers call s.cfg.ErrorHandler after a failed encode only under
// `!errors.Is(err, ht.ErrInternalServerErrorResponse)` (the encoder reports that sentinel exactly when it did write).
// Any other ErrorHandler call reachable after an encoder call writes a second response.
func checkErrorHandlerAfterEncoder(c *core.Ctx, r *core.Rule, ex *core.Expansion) {
	for _, fx := range ex.Fixtures {
		pkg := ex.Prog.ByPath[fx.PkgPath]
		if pkg == nil {
			continue
		}
		for _, fn := range core.PkgFuncs(ex.Prog.SSA, pkg) {
			if fn.Parent() != nil || !strings.HasPrefix(fn.Name(), "handle") || !strings.HasSuffix(fn.Name(), "Request") {
				continue
			}
			var encoders []*ssa.Call
			var handlers []*ssa.Call
			for _, call := range core.Calls(fn) {
				cl, ok := call.(*ssa.Call)
				if !ok {
					continue
				}
				if callee := cl.Common().StaticCallee(); callee != nil && strings.HasPrefix(callee.Name(), "encode") && strings.HasSuffix(callee.Name(), "Response") {
					encoders = append(encoders, cl)
				}
				// s.cfg.ErrorHandler(ctx, w, r, err): dynamic call of a field named ErrorHandler
				if ld, ok := cl.Common().Value.(*ssa.UnOp); ok && ld.Op == token.MUL {
					if fa, ok := ld.X.(*ssa.FieldAddr); ok {
						if st, ok := fa.X.Type().Underlying().(*types.Pointer).Elem().Underlying().(*types.Struct); ok && st.Field(fa.Field).Name() == "ErrorHandler" {
							handlers = append(handlers, cl)
						}
					}
				}
			}
			for _, h := range handlers {
				after := false
				for _, e := range encoders {
					if e.Block() == h.Block() {
						for _, in := range e.Block().Instrs {
							if in == ssa.Instruction(e) {
								after = true
								break
							}
							if in == ssa.Instruction(h) {
								break
							}
						}
					} else if blockReaches(e.Block(), h.Block()) {
						after = true
					}
				}
				if !after {
					continue
				}
				// must be dominated by the false edge of errors.Is(err, ht.ErrInternalServerErrorResponse)
				guarded := false
				for d := h.Block().Idom(); d != nil; d = d.Idom() {
					iff, ok := d.Instrs[len(d.Instrs)-1].(*ssa.If)
					if !ok {
						continue
					}
					if isCall, ok := iff.Cond.(*ssa.Call); ok {
						if callee := isCall.Common().StaticCallee(); callee != nil && callee.Name() == "Is" {
							for _, a := range isCall.Common().Args {
								if g, ok := derefGlobal(a); ok && g == "ErrInternalServerErrorResponse" {
									if d.Succs[1] == h.Block() || d.Succs[1].Dominates(h.Block()) {
										guarded = true
									}
								}
							}
						}
					}
				}
				key := fx.Name + "/" + fnKey(fn)
				if guarded {
					r.Ob(true, "")
				} else {
					r.Fail("errorhandler-after-encoder:"+key, c.Pos(h.Pos()), fmt.Sprintf("%s calls the ErrorHandler on a path after a response encoder ran, without the `!errors.Is(err, ht.ErrInternalServerErrorResponse)` guard: when the encoder had already written (e.g. a 5xx mapped from the handler's error), a second status line and body are written", fn.Name()))
				}
			}
		}
	}
}

func derefGlobal(v ssa.Value) (string, bool) {
	for i := 0; i < 4; i++ {
		switch x := v.(type) {
		case *ssa.UnOp:
			if g, ok := x.X.(*ssa.Global); ok {
				return g.Name(), true
			}
			v = x.X
		case *ssa.MakeInterface:
			v = x.X
		case *ssa.ChangeInterface:
			v = x.X
		case *ssa.Global:
			return x.Name(), true
		default:
			return "", false
		}
	}
	return "", false
}

var _ = sort.Strings

// checkMemoKeyIsArgument: a memo table that stands in for a call — the result
// of g(a…) is stored under m[k] and a hit on m[k] is returned instead of
// calling g — is sound only when k determines the arguments. The rule looks at
// every map insert whose value is (the first result of) a call made in the
// same function: if the key is computed from one of that call's arguments by a
// lossy text function (trim, case fold, cut, slice), two different arguments
// share an entry and the second one gets the first one's result.
func checkMemoKeyIsArgument(c *core.Ctx, r *core.Rule, prog *core.Prog, pkgs ...string) {
	lossy := func(name string) bool {
		switch name {
		case "strings.TrimPrefix", "strings.TrimSuffix", "strings.TrimSpace", "strings.Trim", "strings.TrimLeft", "strings.TrimRight",
			"strings.ToLower", "strings.ToUpper", "strings.Title", "strings.Cut", "strings.Split", "strings.SplitN", "strings.Fields",
			"strings.Replace", "strings.ReplaceAll", "path.Base", "path.Clean", "path/filepath.Base", "path/filepath.Clean":
			return true
		}
		return false
	}
	// derivedLossy: v is computed from arg through a lossy function / slice
	var derivedLossy func(v, arg ssa.Value, depth int) string
	derivedLossy = func(v, arg ssa.Value, depth int) string {
		if depth > 5 || v == arg {
			return ""
		}
		switch x := v.(type) {
		case *ssa.Call:
			name := core.CalleeName(x.Common())
			for _, a := range x.Common().Args {
				if a == arg && lossy(name) {
					return name
				}
				if a != arg {
					if via := derivedLossy(a, arg, depth+1); via != "" {
						return via
					}
				}
			}
		case *ssa.Extract:
			return derivedLossy(x.Tuple, arg, depth+1)
		case *ssa.Slice:
			if x.X == arg {
				return "a slice expression"
			}
			return derivedLossy(x.X, arg, depth+1)
		case *ssa.Phi:
			for _, e := range x.Edges {
				if via := derivedLossy(e, arg, depth+1); via != "" {
					return via
				}
			}
		}
		return ""
	}
	n := 0
	for _, pp := range pkgs {
		pkg := prog.ByPath[pp]
		if pkg == nil {
			continue
		}
		for _, top := range core.PkgFuncs(prog.SSA, pkg) {
			for _, fn := range core.AllFuncs(top) {
				for _, b := range fn.Blocks {
					for _, in := range b.Instrs {
						mu, ok := in.(*ssa.MapUpdate)
						if !ok {
							continue
						}
						var call *ssa.Call
						switch v := mu.Value.(type) {
						case *ssa.Call:
							call = v
						case *ssa.Extract:
							call, _ = v.Tuple.(*ssa.Call)
						}
						if call == nil || call.Parent() != fn {
							continue
						}
						n++
						bad := ""
						var which ssa.Value
						for _, a := range call.Common().Args {
							if via := derivedLossy(mu.Key, a, 0); via != "" {
								bad, which = via, a
							}
						}
						if bad == "" {
							r.Ob(true, "")
							continue
						}
						r.Fail(fmt.Sprintf("memo-key-lossy:%s:%s", fnKeyFull(fn), core.CalleeName(call.Common())), c.Pos(mu.Pos()), fmt.Sprintf("the result of %s is stored under a key computed from its argument %s by %s: different arguments that collapse to one key share an entry, and the later one is answered with the earlier one's result", core.CalleeName(call.Common()), describeValue(which), bad))
					}
				}
			}
		}
	}
	r.Note("memoising map inserts examined: %d", n)
}

// checkInsertLookupKeyAgreement: a map that is filled and consulted in the same
// function is an index; the key it is consulted with has to be built the same
// way as the key it was filled with. The rule compares, per local map, the set
// of functions applied while building insert keys with the set applied while
// building lookup keys (through struct literals, conversions and field reads,
// three levels deep). A normalising function (canonicalisation, case folding,
// trimming) present on one side only means the lookup misses entries that are
// there.
func checkInsertLookupKeyAgreement(c *core.Ctx, r *core.Rule, prog *core.Prog, pkgs ...string) {
	var keyCalls func(v ssa.Value, depth int, out map[string]bool)
	keyCalls = func(v ssa.Value, depth int, out map[string]bool) {
		if depth > 4 {
			return
		}
		switch x := v.(type) {
		case *ssa.Call:
			if _, isB := x.Common().Value.(*ssa.Builtin); !isB {
				out[core.CalleeName(x.Common())] = true
			}
		case *ssa.UnOp:
			// a struct literal built in a local cell: the stores into its fields
			if al, ok := x.X.(*ssa.Alloc); ok && x.Op == token.MUL {
				for _, ref := range *al.Referrers() {
					switch y := ref.(type) {
					case *ssa.FieldAddr:
						for _, u := range *y.Referrers() {
							if st, ok := u.(*ssa.Store); ok && st.Addr == ssa.Value(y) {
								keyCalls(st.Val, depth+1, out)
							}
						}
					case *ssa.Store:
						if y.Addr == ssa.Value(al) {
							keyCalls(y.Val, depth+1, out)
						}
					}
				}
			}
		case *ssa.Convert:
			keyCalls(x.X, depth+1, out)
		case *ssa.ChangeType:
			keyCalls(x.X, depth+1, out)
		case *ssa.MakeInterface:
			keyCalls(x.X, depth+1, out)
		case *ssa.Extract:
			keyCalls(x.Tuple, depth+1, out)
		case *ssa.Phi:
			for _, e := range x.Edges {
				keyCalls(e, depth+1, out)
			}
		}
	}
	n := 0
	for _, pp := range pkgs {
		pkg := prog.ByPath[pp]
		if pkg == nil {
			continue
		}
		for _, top := range core.PkgFuncs(prog.SSA, pkg) {
			for _, fn := range core.AllFuncs(top) {
				type use struct {
					calls map[string]bool
					pos   token.Pos
				}
				ins := map[ssa.Value][]use{}
				lks := map[ssa.Value][]use{}
				for _, b := range fn.Blocks {
					for _, in := range b.Instrs {
						switch x := in.(type) {
						case *ssa.MapUpdate:
							if _, local := x.Map.(*ssa.MakeMap); local {
								if _, isConst := x.Key.(*ssa.Const); isConst {
									continue // a literal table: its keys are written in the form the lookups produce
								}
								u := use{map[string]bool{}, x.Pos()}
								keyCalls(x.Key, 0, u.calls)
								ins[x.Map] = append(ins[x.Map], u)
							}
						case *ssa.Lookup:
							if _, local := x.X.(*ssa.MakeMap); local {
								if ex, isEx := x.Index.(*ssa.Extract); isEx {
									if _, fromRange := ex.Tuple.(*ssa.Next); fromRange {
										continue // a key obtained by ranging over a sibling map filled with the same keys
									}
								}
								u := use{map[string]bool{}, x.Pos()}
								keyCalls(x.Index, 0, u.calls)
								lks[x.X] = append(lks[x.X], u)
							}
						}
					}
				}
				for m, is := range ins {
					ls := lks[m]
					if len(ls) == 0 {
						continue
					}
					n++
					insCalls, lkCalls := map[string]bool{}, map[string]bool{}
					for _, u := range is {
						for k := range u.calls {
							insCalls[k] = true
						}
					}
					for _, u := range ls {
						for k := range u.calls {
							lkCalls[k] = true
						}
					}
					var onlyIns, onlyLk []string
					for k := range insCalls {
						if !lkCalls[k] {
							onlyIns = append(onlyIns, k)
						}
					}
					for k := range lkCalls {
						if !insCalls[k] {
							onlyLk = append(onlyLk, k)
						}
					}
					sort.Strings(onlyIns)
					sort.Strings(onlyLk)
					if len(onlyIns)+len(onlyLk) == 0 {
						r.Ob(true, "")
						continue
					}
					r.Fail(fmt.Sprintf("index-key-mismatch:%s", fnKeyFull(fn)), c.Pos(ls[0].pos), fmt.Sprintf("%s fills a local index with keys built through %v but consults it with keys built through %v: entries whose key changes under the missing function are not found", fn.Name(), orNone(setKeys(insCalls)), orNone(setKeys(lkCalls))))
				}
			}
		}
	}
	r.Note("local index maps (filled and consulted in one function): %d", n)
}

func setKeys(m map[string]bool) []string {
	var out []string
	for k := range m {
		out = append(out, k)
	}
	sort.Strings(out)
	return out
}

func orNone(xs []string) []string {
	if len(xs) == 0 {
		return []string{"(nothing)"}
	}
	return xs
}

// checkUniquenessSetsKeepSeeds: name generation keeps "already used" sets
// (map[string]struct{}) and rejects a candidate found in one. A set can be
// seeded with names reserved in advance (the type's own name). The rule: every
// insert into a local set must be observable — no `clear(set)` or re-make of the
// set variable may run between the insert and the first lookup that the insert
// dominates. An insert whose entry is always wiped before anything can read it
// is a reservation that silently stopped working.
func checkUniquenessSetsKeepSeeds(c *core.Ctx, r *core.Rule, prog *core.Prog, pkgs ...string) {
	n := 0
	for _, pp := range pkgs {
		pkg := prog.ByPath[pp]
		if pkg == nil {
			continue
		}
		for _, top := range core.PkgFuncs(prog.SSA, pkg) {
			for _, fn := range core.AllFuncs(top) {
				for _, call := range core.Calls(fn) {
					bi, ok := call.Common().Value.(*ssa.Builtin)
					if !ok || bi.Name() != "clear" {
						continue
					}
					m := call.Common().Args[0]
					if _, isMap := m.Type().Underlying().(*types.Map); !isMap {
						continue
					}
					n++
					// inserts into the same map value that dominate the clear and sit outside the loop the clear is in
					bad := false
					for _, b := range fn.Blocks {
						for _, in := range b.Instrs {
							mu, ok := in.(*ssa.MapUpdate)
							if !ok || mu.Map != m {
								continue
							}
							if !mu.Block().Dominates(call.Block()) || mu.Block() == call.Block() {
								continue
							}
							// is there a lookup of m reachable from the insert that does not pass the clear first?
							// sufficient for the report: the clear's block dominates every lookup/range of m
							allAfter := true
							for _, b2 := range fn.Blocks {
								for _, in2 := range b2.Instrs {
									var reads bool
									switch x := in2.(type) {
									case *ssa.Lookup:
										reads = x.X == m
									case *ssa.Range:
										reads = x.X == m
									}
									if reads && !call.Block().Dominates(b2) {
										allAfter = false
									}
								}
							}
							// the same key put back right after the clear keeps the reservation alive
							for _, b3 := range fn.Blocks {
								for _, in3 := range b3.Instrs {
									if mu2, ok := in3.(*ssa.MapUpdate); ok && mu2 != mu && mu2.Map == m && (mu2.Key == mu.Key || core.SameValue(mu2.Key, mu.Key) || sameStableLoad(mu2.Key, mu.Key)) && (call.Block() == b3 || call.Block().Dominates(b3)) {
										allAfter = false
									}
								}
							}
							if allAfter {
								bad = true
								r.Fail("seed-wiped:"+fnKeyFull(fn), c.Pos(mu.Pos()), fmt.Sprintf("%s inserts a reserved entry into a set that is cleared (%s) before anything reads it: the reservation (e.g. the type's own name among the names its members must avoid) has no effect", fn.Name(), c.Pos(call.Pos())))
							}
						}
					}
					if !bad {
						r.Pass(fmt.Sprintf("%s: clear() wipes no entry inserted ahead of it", fnKeyFull(fn)))
					}
				}
			}
		}
	}
	r.Note("clear() calls on maps examined: %d", n)
	if n == 0 {
		r.Pass("no clear() on a map in scope: sets are rebuilt by allocation, seeds included")
	}
}

// sameStableLoad: two loads of one variable cell that is not stored to in the loading function.
func sameStableLoad(a, b ssa.Value) bool {
	la, ok1 := a.(*ssa.UnOp)
	lb, ok2 := b.(*ssa.UnOp)
	if !ok1 || !ok2 || la.Op != token.MUL || lb.Op != token.MUL || la.X != lb.X {
		return false
	}
	switch la.X.(type) {
	case *ssa.FreeVar, *ssa.Alloc, *ssa.Global:
	default:
		return false
	}
	if refs := la.X.Referrers(); refs != nil {
		n := 0
		for _, ref := range *refs {
			if st, ok := ref.(*ssa.Store); ok && st.Addr == la.X {
				n++
			}
		}
		if _, isAlloc := la.X.(*ssa.Alloc); isAlloc {
			return n <= 1
		}
		return n == 0
	}
	return true
}

// checkWrapOfNilError: errors.Wrap(err, …) returns nil when err is nil. A Wrap
// whose operand is the very value that a dominating test has just shown to be
// nil (the function already returned on `err != nil`) therefore reports
// success where the text says failure.
func checkWrapOfNilError(c *core.Ctx, r *core.Rule, prog *core.Prog, pkgs ...string) {
	table, _ := panicob.LoadTable(c.VerifDir, "panic_justified.json")
	n := 0
	for _, pp := range pkgs {
		pkg := prog.ByPath[pp]
		if pkg == nil {
			continue
		}
		for _, top := range core.PkgFuncs(prog.SSA, pkg) {
			for _, fn := range core.AllFuncs(top) {
				for _, call := range core.Calls(fn) {
					name := core.CalleeName(call.Common())
					if name != "github.com/go-faster/errors.Wrap" && name != "github.com/go-faster/errors.Wrapf" {
						continue
					}
					n++
					v := call.Common().Args[0]
					if v.Referrers() == nil {
						r.Ob(true, "")
						continue
					}
					knownNil := false
					for _, ref := range *v.Referrers() {
						bo, ok := ref.(*ssa.BinOp)
						if !ok || (bo.Op != token.NEQ && bo.Op != token.EQL) || !(core.IsNilConst(bo.X) || core.IsNilConst(bo.Y)) {
							continue
						}
						for _, u := range *bo.Referrers() {
							iff, ok := u.(*ssa.If)
							if !ok {
								continue
							}
							nilEdge := iff.Block().Succs[1]
							if bo.Op == token.EQL {
								nilEdge = iff.Block().Succs[0]
							}
							if len(nilEdge.Preds) == 1 && (nilEdge == call.Block() || nilEdge.Dominates(call.Block())) {
								knownNil = true
							}
						}
					}
					if why := tableReason(table, "wrap-of-nil:"+fnKeyFull(fn)); knownNil && why != "" {
						r.Justified++
						r.Pass(fmt.Sprintf("wrap-of-nil:%s at %s: reviewed: %s", fnKeyFull(fn), c.Pos(call.Pos()), why))
						continue
					}
					if knownNil {
						r.Fail("wrap-of-nil:"+fnKeyFull(fn), c.Pos(call.Pos()), fmt.Sprintf("%s wraps an error value that is nil on every path reaching this call (the function returned on its non-nil edge before): errors.Wrap(nil, …) is nil, so the failure the message describes is reported as success", fn.Name()))
					} else {
						r.Ob(true, "")
					}
				}
			}
		}
	}
	r.Note("errors.Wrap / Wrapf calls examined: %d", n)
}

// checkNameSpecialCasesOnBothSides: a parameter name that one side of package
// uri treats specially (strings.EqualFold(name, "set-cookie"): one field line per
// item, never folded) needs the matching special case on the other side, or
// what the encoder writes is not what the decoder reads.
func checkNameSpecialCasesOnBothSides(c *core.Ctx, r *core.Rule, prog *core.Prog) {
	pkg := prog.ByPath[pkgURI]
	if pkg == nil {
		r.Undecided("load:uri", "-", "package uri not loaded")
		return
	}
	sides := map[string]map[string]token.Pos{"Encoder": {}, "Decoder": {}}
	for _, top := range core.PkgFuncs(prog.SSA, pkg) {
		if top.Signature.Recv() == nil {
			continue
		}
		_, tn := core.NamedOf(top.Signature.Recv().Type())
		side := ""
		switch {
		case strings.HasSuffix(tn, "Encoder") || strings.HasSuffix(tn, "encoder"):
			side = "Encoder"
		case strings.HasSuffix(tn, "Decoder") || strings.HasSuffix(tn, "decoder"):
			side = "Decoder"
		default:
			continue
		}
		// header / cookie / query / path families are compared per family
		fam := strings.ToLower(strings.TrimSuffix(strings.TrimSuffix(strings.TrimSuffix(strings.TrimSuffix(tn, "Encoder"), "Decoder"), "encoder"), "decoder"))
		fam = strings.TrimSuffix(fam, "param")
		for _, fn := range core.AllFuncs(top) {
			for _, call := range core.Calls(fn) {
				if !core.IsCallTo(call.Common(), "strings", "EqualFold") {
					continue
				}
				for _, a := range call.Common().Args {
					if k, ok := a.(*ssa.Const); ok && k.Value != nil && k.Value.Kind() == constant.String {
						sides[side][fam+":"+strings.ToLower(constant.StringVal(k.Value))] = call.Pos()
					}
				}
			}
		}
	}
	n := 0
	for _, pair := range [][2]string{{"Encoder", "Decoder"}, {"Decoder", "Encoder"}} {
		for k, pos := range sides[pair[0]] {
			n++
			if _, ok := sides[pair[1]][k]; ok {
				r.Pass(fmt.Sprintf("name special case %q exists on both sides", k))
			} else {
				r.Fail("name-special-case-one-sided:"+k, c.Pos(pos), fmt.Sprintf("the %s side of package uri treats the parameter name %q specially, the %s side does not: the two no longer agree on the wire form of that parameter (Set-Cookie arrays: one field per item on one side, comma-split first field on the other)", pair[0], k, pair[1]))
			}
		}
	}
	if n == 0 {
		r.Pass("no name special cases in package uri")
	}
}

// checkResetBufferNotRetained: `buf = buf[:0]` at the top of a loop iteration
// reuses one backing array for every iteration. That is fine for a scratch
// buffer whose contents are consumed before the next reset, and wrong as soon as
// the slice value itself is kept: stored into a struct field, an element or a map
// that outlives the iteration. All kept values then alias the same memory and
// the last iteration overwrites the earlier ones.
func checkResetBufferNotRetained(c *core.Ctx, r *core.Rule, prog *core.Prog, pkgs ...string) {
	n := 0
	for _, pp := range pkgs {
		pkg := prog.ByPath[pp]
		if pkg == nil {
			continue
		}
		for _, top := range core.PkgFuncs(prog.SSA, pkg) {
			for _, fn := range core.AllFuncs(top) {
				for _, b := range fn.Blocks {
					for _, in := range b.Instrs {
						sl, ok := in.(*ssa.Slice)
						if !ok || sl.Low != nil || sl.High == nil || sl.Max != nil {
							continue
						}
						if k, ok := sl.High.(*ssa.Const); !ok || k.Value == nil || k.Int64() != 0 {
							continue
						}
						if _, isSlice := sl.X.Type().Underlying().(*types.Slice); !isSlice {
							continue
						}
						if !inLoop(b) {
							continue
						}
						n++
						// values derived from the reset slice by append / phi
						derived := map[ssa.Value]bool{}
						var add func(v ssa.Value)
						add = func(v ssa.Value) {
							if derived[v] || v.Referrers() == nil {
								return
							}
							derived[v] = true
							for _, ref := range *v.Referrers() {
								switch x := ref.(type) {
								case *ssa.Call:
									if bi, ok := x.Common().Value.(*ssa.Builtin); ok && bi.Name() == "append" && x.Common().Args[0] == v {
										add(x)
									}
								case *ssa.Phi:
									add(x)
								case *ssa.Store:
									// through a local variable cell
									if al, ok := x.Addr.(*ssa.Alloc); ok && x.Val == v && !al.Heap {
										for _, r2 := range *al.Referrers() {
											if ld, ok := r2.(*ssa.UnOp); ok && ld.Op == token.MUL {
												add(ld)
											}
										}
									}
								}
							}
						}
						add(sl)
						bad := false
						for v := range derived {
							for _, ref := range *v.Referrers() {
								kept := ""
								switch x := ref.(type) {
								case *ssa.Store:
									if x.Val != v {
										continue
									}
									switch a := x.Addr.(type) {
									case *ssa.FieldAddr:
										kept = "a struct field (" + fieldName(a.X.Type(), a.Field) + ")"
									case *ssa.IndexAddr:
										kept = "an element of another slice"
									}
								case *ssa.MapUpdate:
									if x.Value == v {
										kept = "a map entry"
									}
								}
								if kept != "" {
									bad = true
									r.Fail("reset-buffer-retained:"+fnKeyFull(fn), c.Pos(core.InstrPos(ref)), fmt.Sprintf("%s resets a slice with [:0] on every iteration (%s) and keeps the slice value in %s: every kept value shares one backing array, later iterations overwrite what earlier ones stored", fn.Name(), c.Pos(sl.Pos()), kept))
								}
							}
						}
						if !bad {
							r.Pass(fmt.Sprintf("%s: a slice reset with [:0] in a loop is not retained", fnKeyFull(fn)))
						}
					}
				}
			}
		}
	}
	r.Note("[:0] resets inside loops examined: %d", n)
}

// checkCursorLoopsAcceptTrailingEmpty: the uri encoders write an empty last
// item / field value as nothing after the delimiter ("a," for ["a", ""]). A
// decoder loop that calls cursor.readValue again after a delimiter was consumed
// therefore meets an empty remainder legitimately; readValue reports that as
// io.EOF. Every such loop has to look at the error (compare it with io.EOF)
// instead of returning it as it comes, or the decoder fails on its own side's
// output.
func checkCursorLoopsAcceptTrailingEmpty(c *core.Ctx, r *core.Rule, prog *core.Prog) {
	pkg := prog.ByPath[pkgURI]
	if pkg == nil {
		r.Undecided("load:uri", "-", "package uri not loaded")
		return
	}
	n := 0
	for _, top := range core.PkgFuncs(prog.SSA, pkg) {
		for _, fn := range core.AllFuncs(top) {
			// per function: the read that follows a consumed delimiter is the one that has to look; a loop may also
			// read names, whose EOF is a genuine error
			nLoop := 0
			looksAtEOF := false
			var firstPos token.Pos
			for _, call := range core.Calls(fn) {
				if !strings.HasSuffix(core.CalleeName(call.Common()), "uri.cursor).readValue") || !inLoop(call.Block()) {
					continue
				}
				cv, ok := call.(*ssa.Call)
				if !ok {
					continue
				}
				nLoop++
				if firstPos == token.NoPos {
					firstPos = call.Pos()
				}
				for _, ref := range *cv.Referrers() {
					ex, ok := ref.(*ssa.Extract)
					if !ok || !core.IsErrorType(ex.Type()) {
						continue
					}
					for _, u := range *ex.Referrers() {
						if bo, ok := u.(*ssa.BinOp); ok && (bo.Op == token.EQL || bo.Op == token.NEQ) {
							for _, side := range []ssa.Value{bo.X, bo.Y} {
								if ld, ok := side.(*ssa.UnOp); ok && ld.Op == token.MUL {
									if g, ok := ld.X.(*ssa.Global); ok && g.Name() == "EOF" {
										looksAtEOF = true
									}
								}
							}
						}
					}
				}
			}
			if nLoop == 0 {
				continue
			}
			n++
			key := "cursor-loop-eof:" + fnKeyFull(fn)
			if looksAtEOF {
				r.Pass(key + ": the loop distinguishes the end of the text from other errors")
			} else {
				r.Fail(key, c.Pos(firstPos), fmt.Sprintf("%s calls cursor.readValue in a loop and returns every error as it comes: an empty remainder after a consumed delimiter (the encoder's spelling of a trailing empty item or field value) makes the decoder fail with EOF on the encoder's own output", fn.Name()))
			}
		}
	}
	if n == 0 {
		r.Undecided("cursor-loop:none", "-", "no loop over cursor.readValue found in package uri")
	}
}

// ---------------------------------------------------------------- HasParam never looks for the bare name of a deepObject parameter (C06, S1)

// checkHasParamDeepObject folds uri.QueryDecoder.HasParam under the configuration (Style = deepObject, Explode = true)
// for both an empty and a non-empty field list, following both sides of every branch that does not fold, and reports
// any path that reaches the lookup of the bare parameter name in the query values: the encoder writes a deepObject
// parameter as `name[key]=…` only, so a decoder that looks for `name` finds nothing and treats the parameter as absent.
// It returns true when the rule held for the empty field list (free-form objects), which is what lets a generated
// deepObject decoder without a Fields list pass rule (b) of checkParamDecoderShapes.
func checkHasParamDeepObject(c *core.Ctx, r *core.Rule, prog *core.Prog) bool {
	fn := prog.Func(pkgURI, "(*QueryDecoder).HasParam")
	if fn == nil || len(fn.Params) != 2 {
		r.Undecided("anchor:QueryDecoder.HasParam", "-", "method not found")
		return false
	}
	deep := ""
	if sp := prog.ByPath[pkgURI]; sp != nil {
		if k, ok := sp.Members["QueryStyleDeepObject"].(*ssa.NamedConst); ok && k.Value.Value != nil && k.Value.Value.Kind() == constant.String {
			deep = constant.StringVal(k.Value.Value)
		}
	}
	if deep == "" {
		r.Undecided("anchor:QueryStyleDeepObject", "-", "constant not found")
		return false
	}
	cfgParam := fn.Params[1]
	// loads of cfg's fields: through the spilled copy (*t0 = cfg; &t0.F; load) or ssa.Field on the parameter
	fieldOf := func(v ssa.Value) string {
		switch x := v.(type) {
		case *ssa.UnOp:
			if x.Op != token.MUL {
				return ""
			}
			fa, ok := x.X.(*ssa.FieldAddr)
			if !ok {
				return ""
			}
			al, ok := fa.X.(*ssa.Alloc)
			if !ok {
				return ""
			}
			spilled := false
			for _, ref := range *al.Referrers() {
				if st, ok := ref.(*ssa.Store); ok && st.Addr == al {
					if st.Val != cfgParam {
						return ""
					}
					spilled = true
				}
			}
			if !spilled {
				return ""
			}
			return fieldName(fa.X.Type(), fa.Field)
		case *ssa.Field:
			if x.X == cfgParam {
				st := x.X.Type().Underlying().(*types.Struct)
				return st.Field(x.Field).Name()
			}
		}
		return ""
	}
	var bare []ssa.Instruction
	type bindT struct {
		v    ssa.Value
		kind string
	}
	var binds []bindT
	for _, b := range fn.Blocks {
		for _, in := range b.Instrs {
			v, ok := in.(ssa.Value)
			if !ok {
				continue
			}
			switch f := fieldOf(v); f {
			case "Style", "Explode":
				binds = append(binds, bindT{v, f})
			}
			if call, ok := in.(*ssa.Call); ok {
				if bi, ok := call.Call.Value.(*ssa.Builtin); ok && bi.Name() == "len" && len(call.Call.Args) == 1 && fieldOf(call.Call.Args[0]) == "Fields" {
					binds = append(binds, bindT{call, "lenFields"})
				}
			}
			if lk, ok := in.(*ssa.Lookup); ok && fieldOf(lk.Index) == "Name" {
				bare = append(bare, lk)
			}
		}
	}
	if len(bare) == 0 {
		// nothing to reach; the rule is about a lookup that exists today, its absence is a change of shape worth a look
		r.Undecided("hasparam-deepobject:no-bare-lookup", c.Pos(fn.Pos()), "HasParam has no lookup keyed by cfg.Name any more: the rule's anchor is gone")
		return false
	}
	okEmpty := false
	for _, nFields := range []int64{0, 1} {
		env := &ssaeval.Env{Bind: map[ssa.Value]ssaeval.Val{}, StopAt: map[ssa.Instruction]bool{}, Budget: 4000}
		for _, b := range binds {
			switch b.kind {
			case "Style":
				env.Bind[b.v] = constant.MakeString(deep)
			case "Explode":
				env.Bind[b.v] = constant.MakeBool(true)
			case "lenFields":
				env.Bind[b.v] = constant.MakeInt64(nFields)
			}
		}
		for _, in := range bare {
			env.StopAt[in] = true
		}
		outs := env.Explore(fn.Blocks[0], 200)
		key := fmt.Sprintf("hasparam-deepobject:fields=%d", nFields)
		reached, undecided, returns := false, "", 0
		for _, o := range outs {
			switch o.Kind {
			case "stop":
				reached = true
			case "unknown":
				undecided = o.Why
			case "return":
				returns++
			}
		}
		switch {
		case reached:
			what := "a free-form object (no named properties)"
			if nFields > 0 {
				what = "an object with named properties"
			}
			r.Fail(key, c.Pos(bare[0].Pos()), fmt.Sprintf("QueryDecoder.HasParam with Style=deepObject, Explode=true and %s reaches the lookup of the bare parameter name: the encoder writes such a parameter as `name[key]=…` only, so the parameter is reported absent and what the client sent is dropped", what))
		case undecided != "" && !strings.Contains(undecided, "branch on a value"):
			r.Undecided(key, c.Pos(fn.Pos()), undecided)
		case returns == 0:
			r.Undecided(key, c.Pos(fn.Pos()), "no path of HasParam reaches a return under this configuration")
		default:
			r.Pass(fmt.Sprintf("%s: %d paths explored, none reaches the bare-name lookup", key, len(outs)))
			if nFields == 0 {
				okEmpty = true
			}
		}
	}
	return okEmpty
}

// ---------------------------------------------------------------- who may call (C03)

// checkWhoMayCall: every reference to the function (static call, go/defer, bound-method value, function value) inside
// the loaded module packages comes from a function named in the reviewed table. Keys name the caller, not the line.
func checkWhoMayCall(c *core.Ctx, r *core.Rule, prog *core.Prog, pkgPath, name string, allowed map[string]string, consequence string) {
	target := prog.Func(pkgPath, name)
	if target == nil {
		r.Undecided("anchor:"+name, "-", name+" not found")
		return
	}
	seenAllowed := map[string]bool{}
	for _, sp := range prog.SSA.AllPackages() {
		if sp.Pkg == nil || !strings.HasPrefix(sp.Pkg.Path(), core.Module) {
			continue
		}
		for _, top := range core.PkgFuncs(prog.SSA, sp) {
			for _, fn := range core.AllFuncs(top) {
				refs := false
				var pos token.Pos
				for _, b := range fn.Blocks {
					for _, in := range b.Instrs {
						for _, op := range in.Operands(nil) {
							if op == nil || *op == nil {
								continue
							}
							switch v := (*op).(type) {
							case *ssa.Function:
								if v == target {
									refs, pos = true, in.Pos()
								}
							case *ssa.MakeClosure:
								if f, ok := v.Fn.(*ssa.Function); ok && strings.HasSuffix(f.Name(), "$bound") && f.Object() == target.Object() {
									refs, pos = true, in.Pos()
								}
							}
						}
					}
				}
				if !refs {
					continue
				}
				// closures are attributed to the declared function they live in
				owner := fn
				for owner.Parent() != nil {
					owner = owner.Parent()
				}
				key := fnKeyFull(owner)
				if why, ok := allowed[key]; ok {
					if !seenAllowed[key] {
						seenAllowed[key] = true
						r.Pass(fmt.Sprintf("%s may call %s: %s", key, name, why))
					}
					continue
				}
				r.Fail("who-may-call:"+name+":"+key, c.Pos(pos), fmt.Sprintf("%s calls %s directly; only %s may: %s", key, name, strings.Join(setKeysStr(allowed), ", "), consequence))
			}
		}
	}
	for k := range allowed {
		if !seenAllowed[k] {
			r.Undecided("who-may-call:"+name+":stale:"+k, "-", fmt.Sprintf("the reviewed caller %s no longer calls %s: the table is stale", k, name))
		}
	}
}

func setKeysStr(m map[string]string) []string {
	var ks []string
	for k := range m {
		ks = append(ks, k)
	}
	sort.Strings(ks)
	return ks
}

// ---------------------------------------------------------------- last fallible step (C02)

// checkLastFallibleStep: in `fn`, once the call of `step` has succeeded nothing can fail any more — every return
// reachable from the call's no-error edge returns a nil error. generateSecurities registers schemes in the
// generator-wide cache while their Go types go to the per-operation type storage, which is dropped when the operation
// fails; a step that can still fail afterwards (and be skipped under ignore_not_implemented) leaves a cached scheme
// whose type is declared nowhere, and the written package does not compile.
func checkLastFallibleStep(c *core.Ctx, r *core.Rule, prog *core.Prog, pkgPath, fnName, stepSuffix string) {
	fn := prog.Func(pkgPath, fnName)
	if fn == nil {
		r.Undecided("anchor:"+fnName, "-", fnName+" not found")
		return
	}
	found := 0
	for _, call := range core.Calls(fn) {
		cv, ok := call.(*ssa.Call)
		if !ok || !strings.HasSuffix(core.CalleeName(call.Common()), stepSuffix) {
			continue
		}
		found++
		// the no-error edge of the test of this call's error result
		var okEdge *ssa.BasicBlock
		for _, ref := range *cv.Referrers() {
			ee, ok := ref.(*ssa.Extract)
			if !ok || !core.IsErrorType(ee.Type()) {
				continue
			}
			for _, u := range *ee.Referrers() {
				bo, ok := u.(*ssa.BinOp)
				if !ok || bo.Op != token.NEQ || !core.IsNilConst(bo.Y) {
					continue
				}
				for _, bu := range *bo.Referrers() {
					if iff, ok := bu.(*ssa.If); ok {
						okEdge = iff.Block().Succs[1]
					}
				}
			}
		}
		key := "last-fallible-step:" + fnName + ":" + stepSuffix[strings.LastIndexByte(stepSuffix, '.')+1:]
		if okEdge == nil {
			r.Undecided(key, c.Pos(call.Pos()), "the error result of the step is not tested with `err != nil`")
			continue
		}
		seen := map[*ssa.BasicBlock]bool{okEdge: true}
		stack := []*ssa.BasicBlock{okEdge}
		var bad ssa.Instruction
		nRet := 0
		for len(stack) > 0 && bad == nil {
			b := stack[len(stack)-1]
			stack = stack[:len(stack)-1]
			for _, in := range b.Instrs {
				if ret, ok := in.(*ssa.Return); ok {
					nRet++
					for _, res := range ret.Results {
						if core.IsErrorType(res.Type()) && !core.IsNilConst(res) {
							bad = ret
						}
					}
				}
			}
			for _, s := range b.Succs {
				if !seen[s] {
					seen[s] = true
					stack = append(stack, s)
				}
			}
		}
		switch {
		case bad != nil:
			r.Fail(key, c.Pos(bad.Pos()), fmt.Sprintf("%s can still fail after %s succeeded: the schemes that call registered in the generator-wide cache outlive the operation's type storage when the operation is skipped, and a later operation gets a scheme whose type is declared nowhere (the package does not compile)", fnName, stepSuffix[strings.LastIndexByte(stepSuffix, '.')+1:]))
		case nRet == 0:
			r.Undecided(key, c.Pos(call.Pos()), "no return reachable after the step")
		default:
			r.Pass(fmt.Sprintf("%s: nothing can fail after %s", fnName, stepSuffix[strings.LastIndexByte(stepSuffix, '.')+1:]))
		}
	}
	if found == 0 {
		r.Undecided("anchor:"+fnName+":"+stepSuffix, c.Pos(fn.Pos()), "no call of the step found")
	}
}

// ---------------------------------------------------------------- root components are parsed in the root context (C07)

// rootCtxExceptions: functions of the OpenAPI parser that read rootLoc and still hand on a caller's resolve context.
var rootCtxExceptions = map[string]string{
	"ogen/openapi/parser.parser.parseOp": "rootLoc is only the parent of the document-level `security` list used when the operation has none of its own; the context is the operation's and travels with the requirement list, whose scheme entries are looked up by parseSecurityRequirementScheme in a root context of its own",
}

// checkRootComponentsInRootCtx: a function that addresses nodes of the root document (it builds locations from
// parser.rootLoc) parses what it finds there relative to the root document: every *jsonpointer.ResolveCtx it hands to a
// callee is the result of parser.resolveCtx() — not a context it was given, which belongs to whatever file the caller is
// working in. With a foreign context a `$ref` inside a root component (a security scheme referenced from an operation
// that lives in another file) is resolved against that other file: referencing stops being the same as inlining.
func checkRootComponentsInRootCtx(c *core.Ctx, r *core.Rule, prog *core.Prog) {
	sp := prog.ByPath[pkgParser]
	if sp == nil {
		r.Undecided("load:openapi/parser", "-", "package not loaded")
		return
	}
	isCtx := func(t types.Type) bool {
		p, ok := t.Underlying().(*types.Pointer)
		if !ok {
			return false
		}
		n, ok := types.Unalias(p.Elem()).(*types.Named)
		return ok && n.Obj().Name() == "ResolveCtx" && n.Obj().Pkg() != nil && strings.HasSuffix(n.Obj().Pkg().Path(), "/jsonpointer")
	}
	n := 0
	for _, top := range core.PkgFuncs(prog.SSA, sp) {
		readsRootLoc := false
		for _, fn := range core.AllFuncs(top) {
			for _, b := range fn.Blocks {
				for _, in := range b.Instrs {
					if fa, ok := in.(*ssa.FieldAddr); ok && fieldName(fa.X.Type(), fa.Field) == "rootLoc" {
						readsRootLoc = true
					}
				}
			}
		}
		if !readsRootLoc {
			continue
		}
		key := fnKeyFull(top)
		for _, fn := range core.AllFuncs(top) {
			for _, call := range core.Calls(fn) {
				for _, a := range call.Common().Args {
					if !isCtx(a.Type()) {
						continue
					}
					n++
					if isRootCtxValue(a, fn, 0) {
						r.Pass(fmt.Sprintf("%s hands a root context to %s", key, core.CalleeName(call.Common())))
						continue
					}
					if why, ok := rootCtxExceptions[key]; ok {
						r.Justified++
						r.Pass(fmt.Sprintf("%s hands on its caller's context (reviewed): %s", key, why))
						continue
					}
					r.Fail("root-node-foreign-ctx:"+key, c.Pos(call.Pos()), fmt.Sprintf("%s addresses nodes of the root document (it reads rootLoc) but hands %s a resolve context that is not parser.resolveCtx(): a $ref inside the root component is resolved against the file the caller happens to be in", key, core.CalleeName(call.Common())))
				}
			}
		}
	}
	if n == 0 {
		r.Undecided("anchor:rootLoc-ctx", "-", "no function of openapi/parser both reads rootLoc and passes a resolve context")
	}
}

// isRootCtxValue: v is the result of parser.resolveCtx(), directly or through a local variable (also one captured by
// a closure) that is only ever assigned such results.
func isRootCtxValue(v ssa.Value, fn *ssa.Function, depth int) bool {
	if depth > 4 {
		return false
	}
	cell := func(al *ssa.Alloc) bool {
		n := 0
		for _, ref := range *al.Referrers() {
			if st, ok := ref.(*ssa.Store); ok && st.Addr == ssa.Value(al) {
				n++
				if !isRootCtxValue(st.Val, al.Parent(), depth+1) {
					return false
				}
			}
		}
		return n > 0
	}
	switch x := v.(type) {
	case *ssa.Call:
		return strings.HasSuffix(core.CalleeName(x.Common()), "parser).resolveCtx")
	case *ssa.Phi:
		for _, e := range x.Edges {
			if !isRootCtxValue(e, fn, depth+1) {
				return false
			}
		}
		return len(x.Edges) > 0
	case *ssa.UnOp:
		if x.Op != token.MUL {
			return false
		}
		switch y := x.X.(type) {
		case *ssa.Alloc:
			return cell(y)
		case *ssa.FreeVar:
			// the cell the enclosing function bound to this free variable
			parent := fn.Parent()
			if parent == nil {
				return false
			}
			idx := -1
			for i, fv := range fn.FreeVars {
				if fv == y {
					idx = i
				}
			}
			for _, b := range parent.Blocks {
				for _, in := range b.Instrs {
					if mc, ok := in.(*ssa.MakeClosure); ok && mc.Fn == ssa.Value(fn) && idx >= 0 && idx < len(mc.Bindings) {
						if al, ok := mc.Bindings[idx].(*ssa.Alloc); ok {
							return cell(al)
						}
					}
				}
			}
		}
	}
	return false
}

// ---------------------------------------------------------------- component keys are confined to harmless characters (C02, C20)

// checkComponentKeyAlphabet evaluates the regular expression that validates the keys of the Components Object
// (openapi/parser.componentsKeyRegex, a constant pattern) and requires every character it admits to be harmless in
// the places that use such a key raw: the templates print it into `//` line comments (a line break ends the comment and
// the rest of the name becomes code: the output no longer formats, after the target directory has been cleaned), and
// the reference shortcut treats it as one pointer token (no '/', no '~', no '%', no '#'). The pattern must be anchored
// at both ends and consist of one repeated character class, otherwise the rule is undecided.
func checkComponentKeyAlphabet(c *core.Ctx, r *core.Rule, prog *core.Prog) {
	sp := prog.ByPath[pkgParser]
	if sp == nil {
		r.Undecided("load:openapi/parser", "-", "package not loaded")
		return
	}
	g, ok := sp.Members["componentsKeyRegex"].(*ssa.Global)
	if !ok {
		r.Undecided("anchor:componentsKeyRegex", "-", "openapi/parser.componentsKeyRegex not found")
		return
	}
	pat, found := "", false
	var pos token.Pos
	if init := sp.Func("init"); init != nil {
		for _, b := range init.Blocks {
			for _, in := range b.Instrs {
				st, ok := in.(*ssa.Store)
				if !ok || st.Addr != ssa.Value(g) {
					continue
				}
				if call, ok := st.Val.(*ssa.Call); ok && (core.IsCallTo(call.Common(), "regexp", "MustCompile") || core.IsCallTo(call.Common(), "regexp", "Compile")) {
					if k, ok := call.Common().Args[0].(*ssa.Const); ok && k.Value != nil && k.Value.Kind() == constant.String {
						pat, found, pos = constant.StringVal(k.Value), true, call.Pos()
					}
				}
			}
		}
	}
	if !found {
		r.Undecided("component-key-alphabet:pattern", "-", "componentsKeyRegex is not initialised from a constant pattern")
		return
	}
	re, err := syntax.Parse(pat, syntax.Perl)
	if err != nil {
		r.Undecided("component-key-alphabet:parse", c.Pos(pos), err.Error())
		return
	}
	re = re.Simplify()
	// ^ class+ $   (Simplify keeps OpPlus; `class*` would admit the empty key, which is harmless here)
	var class *syntax.Regexp
	if re.Op == syntax.OpConcat && len(re.Sub) == 3 && (re.Sub[0].Op == syntax.OpBeginText || re.Sub[0].Op == syntax.OpBeginLine && re.Flags&syntax.OneLine != 0) &&
		(re.Sub[2].Op == syntax.OpEndText) && (re.Sub[1].Op == syntax.OpPlus || re.Sub[1].Op == syntax.OpStar) && len(re.Sub[1].Sub) == 1 {
		class = re.Sub[1].Sub[0]
	}
	if class == nil || (class.Op != syntax.OpCharClass && class.Op != syntax.OpLiteral) {
		r.Undecided("component-key-alphabet:shape", c.Pos(pos), fmt.Sprintf("the pattern %q is not `^[class]+$`: its alphabet is not read off", pat))
		return
	}
	var ranges [][2]rune
	if class.Op == syntax.OpLiteral {
		for _, x := range class.Rune {
			ranges = append(ranges, [2]rune{x, x})
		}
	} else {
		for i := 0; i+1 < len(class.Rune); i += 2 {
			ranges = append(ranges, [2]rune{class.Rune[i], class.Rune[i+1]})
		}
	}
	var bad []string
	in := func(x rune) bool {
		for _, rg := range ranges {
			if rg[0] <= x && x <= rg[1] {
				return true
			}
		}
		return false
	}
	for _, rg := range ranges {
		if rg[0] < 0x20 {
			hi := rg[1]
			if hi > 0x1f {
				hi = 0x1f
			}
			bad = append(bad, fmt.Sprintf("control characters U+%04X–U+%04X", rg[0], hi))
		}
	}
	for _, x := range []rune{0x7f, 0x85, 0x2028, 0x2029, '/', '~', '%', '#', '"', '\\', '`', '*'} {
		if in(x) {
			bad = append(bad, fmt.Sprintf("%q", x))
		}
	}
	if len(bad) == 0 {
		r.Pass(fmt.Sprintf("componentsKeyRegex %q admits only single-line, pointer-neutral characters", pat))
		return
	}
	r.Fail("component-key-alphabet", c.Pos(pos), fmt.Sprintf("componentsKeyRegex %q admits %s: a component key is printed raw into `//` comments of the generated code and used as one JSON-pointer token; such a key passes spec validation, and generation then fails while formatting — after the target directory has been cleaned and partly rewritten", pat, strings.Join(bad, ", ")))
}
