package rules

import (
	"fmt"
	"go/ast"
	"go/token"
	"go/types"
	"path/filepath"
	"sort"
	"strings"

	"golang.org/x/tools/go/packages"
	"golang.org/x/tools/go/ssa"

	"ogenverif/internal/byteset"
	"ogenverif/internal/core"
	"ogenverif/internal/panicob"
)

func init() {
	register(&Property{
		ID: "C12",
		Meta: core.Meta{
			Level: "other",
			Explanation: "Structural part of C12 decided statically: (R12.1) every bounds check in uri/normalize.go that the compiler itself cannot prove (enumerated by the compiler's check_bce pass on the current tree) is discharged by a dominating guard found by a lexical guard recogniser with a small linear prover, or by a reviewed table entry — so NormalizeEscapedPath cannot panic for any string; " +
				"(R12.2) the byte classes are tabulated exhaustively over all 256 bytes by constant folding of the functions' syntax trees: shouldEscapePath is the complement of RFC 3986 unreserved, ishex is the 22 hex digits, unhex is their value, asciiToUpper upper-cases exactly a–f and every hex digit it changes triggers the slow path; and every unhex(x) in NormalizeEscapedPath is dominated by the true edge of ishex on the same value (SSA, structural value equality) — so an invalid escape can never be decoded; " +
				"(R12.3) every consumer compares normalised text: the argument of pathID and the text handed to the path parser flow from NormalizeEscapedPath. Idempotence, canonical output and octet preservation are value properties of the rewrite loop and are NOT decided.",
			Assumptions: []string{
				"integer overflow of index arithmetic is ignored (indices are bounded by string lengths)",
				"facts about selector-rooted values are invalidated by calls that mention their root only (no aliasing through other names)",
			},
			TrustedBase: []string{"the Go compiler's prove pass as the enumerator of unproven bounds checks (-d=ssa/check_bce)", "tables/panic_justified.json (reviewed reasons)"},
		},
		Run: runC12,
	})
}

func findPkg(pkgs []*packages.Package, path string) *packages.Package {
	var out *packages.Package
	packages.Visit(pkgs, nil, func(p *packages.Package) {
		if p.PkgPath == path {
			out = p
		}
	})
	return out
}

func funcDecl(p *packages.Package, name string) *ast.FuncDecl {
	for _, f := range p.Syntax {
		for _, d := range f.Decls {
			if fd, ok := d.(*ast.FuncDecl); ok && fd.Recv == nil && fd.Name.Name == name {
				return fd
			}
		}
	}
	return nil
}

func byteSetString(bs []byte) string {
	var sb strings.Builder
	for i := 0; i < len(bs); {
		j := i
		for j+1 < len(bs) && bs[j+1] == bs[j]+1 {
			j++
		}
		if sb.Len() > 0 {
			sb.WriteByte(' ')
		}
		if j > i {
			fmt.Fprintf(&sb, "%q-%q", bs[i], bs[j])
		} else {
			fmt.Fprintf(&sb, "%q", bs[i])
		}
		i = j + 1
	}
	return sb.String()
}

func setOf(s string) map[byte]bool {
	m := map[byte]bool{}
	for i := 0; i < len(s); i++ {
		m[s[i]] = true
	}
	return m
}

const (
	unreserved = "abcdefghijklmnopqrstuvwxyzABCDEFGHIJKLMNOPQRSTUVWXYZ0123456789-._~"
	hexDigits  = "0123456789abcdefABCDEF"
)

func hexVal(c byte) int64 {
	switch {
	case c >= '0' && c <= '9':
		return int64(c - '0')
	case c >= 'a' && c <= 'f':
		return int64(c-'a') + 10
	default:
		return int64(c-'A') + 10
	}
}

func runC12(c *core.Ctx) error {
	prog, err := c.Program("./uri", "./openapi/parser")
	if err != nil {
		return err
	}
	uriPkg := prog.PkgBy[pkgURI]
	if uriPkg == nil {
		return fmt.Errorf("package uri not loaded")
	}
	table, err := panicob.LoadTable(c.VerifDir, "panic_justified.json")
	if err != nil {
		return err
	}

	// ---- R12.1
	r1 := c.NewRule("R12.1", "S1", "unproven bounds checks in uri/normalize.go are dominated by guards", 4)
	sites, err := panicob.Bounds(c, []*packages.Package{uriPkg})
	if err != nil {
		return err
	}
	panicob.Discharge(c, r1, sites, panicob.Options{Table: table, Filter: func(s *panicob.Site) bool {
		return filepath.Base(s.Pos.Filename) == "normalize.go"
	}})

	// ---- R12.2 byte tables
	r2 := c.NewRule("R12.2", "S1", "byte classes equal RFC 3986 / hex tables (exhaustive over 256 bytes); unhex only after ishex on the same value", 8)
	opt := byteset.Options{Callee: func(o types.Object) *ast.FuncDecl {
		if o == nil || o.Pkg() == nil || o.Pkg().Path() != pkgURI {
			return nil
		}
		return funcDecl(uriPkg, o.Name())
	}}
	tab := func(name string) *byteset.Table {
		fd := funcDecl(uriPkg, name)
		if fd == nil {
			r2.Undecided("anchor:"+name, "-", "function uri."+name+" not found")
			return nil
		}
		t, err := byteset.EvalFunc(uriPkg.TypesInfo, fd, opt)
		if err != nil {
			r2.Undecided("table:"+name, c.Pos(fd.Pos()), "uri."+name+" is outside the constant-folding fragment: "+err.Error())
			return nil
		}
		return t
	}
	if t := tab("shouldEscapePath"); t != nil {
		un := setOf(unreserved)
		var bad []byte
		for i := 0; i < 256; i++ {
			if t.Bool[i] == un[byte(i)] {
				bad = append(bad, byte(i))
			}
		}
		if len(bad) == 0 {
			r2.Pass("shouldEscapePath is false exactly on RFC 3986 unreserved (66 bytes), 256 bytes tabulated")
		} else {
			r2.Fail("shouldEscapePath", c.Pos(funcDecl(uriPkg, "shouldEscapePath").Pos()), "shouldEscapePath disagrees with RFC 3986 §2.3 unreserved on bytes "+byteSetString(bad))
		}
	}
	hx := setOf(hexDigits)
	if t := tab("ishex"); t != nil {
		var bad []byte
		for i := 0; i < 256; i++ {
			if t.Bool[i] != hx[byte(i)] {
				bad = append(bad, byte(i))
			}
		}
		if len(bad) == 0 {
			r2.Pass("ishex is true exactly on the 22 hex digits")
		} else {
			r2.Fail("ishex", c.Pos(funcDecl(uriPkg, "ishex").Pos()), "ishex disagrees with the hex-digit set on bytes "+byteSetString(bad))
		}
	}
	if t := tab("unhex"); t != nil {
		var bad []byte
		for i := 0; i < len(hexDigits); i++ {
			if t.Byte[hexDigits[i]] != hexVal(hexDigits[i]) {
				bad = append(bad, hexDigits[i])
			}
		}
		if len(bad) == 0 {
			r2.Pass("unhex maps each hex digit to its value")
		} else {
			r2.Fail("unhex", c.Pos(funcDecl(uriPkg, "unhex").Pos()), "unhex gives a wrong value for "+byteSetString(bad))
		}
	}
	up := tab("asciiToUpper")
	low := tab("asciiIsLowercase")
	if up != nil {
		var bad []byte
		for i := 0; i < len(hexDigits); i++ {
			ch := hexDigits[i]
			got := up.Byte[ch]
			want := int64(ch)
			if ch >= 'a' && ch <= 'f' {
				want = int64(ch - 'a' + 'A')
			}
			if got != want {
				bad = append(bad, ch)
			}
		}
		if len(bad) == 0 {
			r2.Pass("asciiToUpper upper-cases a–f and fixes every other hex digit")
		} else {
			r2.Fail("asciiToUpper", c.Pos(funcDecl(uriPkg, "asciiToUpper").Pos()), "asciiToUpper is wrong on hex digits "+byteSetString(bad))
		}
	}
	if up != nil && low != nil {
		var bad []byte
		for i := 0; i < len(hexDigits); i++ {
			ch := hexDigits[i]
			if up.Byte[ch] != int64(ch) && !low.Bool[ch] {
				bad = append(bad, ch)
			}
		}
		if len(bad) == 0 {
			r2.Pass("every hex digit asciiToUpper changes satisfies asciiIsLowercase (so the fast scan sends it to the rewriting path)")
		} else {
			r2.Fail("asciiIsLowercase", c.Pos(funcDecl(uriPkg, "asciiIsLowercase").Pos()), "hex digits "+byteSetString(bad)+" need upper-casing but do not trigger the rewriting path")
		}
	}

	// unhex dominated by ishex
	nfn := prog.Func(pkgURI, "NormalizeEscapedPath")
	ishexFn := prog.Func(pkgURI, "ishex")
	unhexFn := prog.Func(pkgURI, "unhex")
	if nfn == nil || ishexFn == nil || unhexFn == nil {
		r2.Undecided("anchor:NormalizeEscapedPath", "-", "uri.NormalizeEscapedPath / ishex / unhex not found")
	} else {
		var ishexCalls []*ssa.Call
		for _, call := range core.Calls(nfn) {
			if cl, ok := call.(*ssa.Call); ok && call.Common().StaticCallee() == ishexFn {
				ishexCalls = append(ishexCalls, cl)
			}
		}
		ord := map[string]int{}
		var unhexCalls []ssa.CallInstruction
		for _, call := range core.Calls(nfn) {
			if call.Common().StaticCallee() == unhexFn {
				unhexCalls = append(unhexCalls, call)
			}
		}
		sort.Slice(unhexCalls, func(i, j int) bool { return unhexCalls[i].Pos() < unhexCalls[j].Pos() })
		for _, call := range unhexCalls {
			arg := call.Common().Args[0]
			ok := false
			for _, ic := range ishexCalls {
				if !core.SameValue(arg, ic.Common().Args[0]) {
					continue
				}
				for _, eb := range core.EdgeBlocks(ic, true) {
					if eb.Dominates(call.Block()) {
						ok = true
					}
				}
			}
			e := exprOfArg(c, prog, call)
			key := fmt.Sprintf("NormalizeEscapedPath:unhex(%s)#%d", e, ord[e])
			ord[e]++
			if ok {
				r2.Pass(key + " dominated by ishex on the same value")
			} else {
				r2.Fail(key, c.Pos(call.Pos()), "unhex is applied to a byte that no dominating ishex test has validated: an invalid escape such as %zz is decoded instead of being reported")
			}
		}
	}

	// ---- R12.3 consumers
	r3 := c.NewRule("R12.3", "S1", "consumers compare normalised text (pathID argument, path parser input)", 2)
	normFn := nfn
	checkFlows := func(fn *ssa.Function, sinkDesc string, sinks []ssa.Value, pos token.Pos) {
		if len(sinks) == 0 {
			r3.Undecided("anchor:"+sinkDesc, c.Pos(pos), "no "+sinkDesc+" found")
			return
		}
		for i, v := range sinks {
			key := fmt.Sprintf("%s:%s#%d", fn.Name(), sinkDesc, i)
			ok, why := normalizedOrInvalid(v, normFn, map[ssa.Value]bool{})
			if ok {
				r3.Pass(key + " is NormalizeEscapedPath's output, or its raw input only on the edge where normalisation reported an invalid escape")
			} else {
				r3.Fail(key, c.Pos(pos), sinkDesc+" "+why+": equivalent spellings of a path are treated as different")
			}
		}
	}
	if ppi := prog.Func(pkgParser, "parser.parsePathItems"); ppi == nil {
		r3.Undecided("anchor:parsePathItems", "-", "openapi/parser.(*parser).parsePathItems not found")
	} else {
		var sinks []ssa.Value
		for _, f := range core.AllFuncs(ppi) {
			for _, call := range core.Calls(f) {
				if core.IsCallTo(call.Common(), pkgParser, "pathID") {
					sinks = append(sinks, call.Common().Args[0])
				}
			}
		}
		checkFlows(ppi, "argument of pathID", sinks, ppi.Pos())
	}
	if pp := prog.Func(pkgParser, "parsePath"); pp == nil {
		r3.Undecided("anchor:parsePath", "-", "openapi/parser.parsePath not found")
	} else {
		var sinks []ssa.Value
		for _, b := range pp.Blocks {
			for _, in := range b.Instrs {
				st, ok := in.(*ssa.Store)
				if !ok {
					continue
				}
				if fa, ok := st.Addr.(*ssa.FieldAddr); ok && fieldName(fa.X.Type(), fa.Field) == "path" {
					sinks = append(sinks, st.Val)
				}
			}
		}
		checkFlows(pp, "pathParser.path", sinks, pp.Pos())
	}
	return nil
}

// exprOfArg renders the source expression of a call's first argument.
func exprOfArg(c *core.Ctx, prog *core.Prog, call ssa.CallInstruction) string {
	pos := call.Pos()
	fn := call.Parent()
	pkg := prog.PkgBy[core.FuncPkgPath(fn)]
	if pkg == nil {
		return "?"
	}
	for _, f := range pkg.Syntax {
		if f.Pos() <= pos && pos < f.End() {
			var out string
			ast.Inspect(f, func(n ast.Node) bool {
				if ce, ok := n.(*ast.CallExpr); ok && ce.Lparen == pos && len(ce.Args) > 0 {
					out = types.ExprString(ce.Args[0])
				}
				return out == ""
			})
			if out != "" {
				return out
			}
		}
	}
	return "?"
}

// normalizedOrInvalid: v is Extract#0 of a NormalizeEscapedPath call, or a phi
// whose every other incoming value is that call's own argument arriving on
// the ok==false edge.
func normalizedOrInvalid(v ssa.Value, normFn *ssa.Function, seen map[ssa.Value]bool) (bool, string) {
	isNorm := func(x ssa.Value) *ssa.Call {
		if ex, ok := x.(*ssa.Extract); ok && ex.Index == 0 {
			if call, ok := ex.Tuple.(*ssa.Call); ok && call.Common().StaticCallee() == normFn {
				return call
			}
		}
		return nil
	}
	if isNorm(v) != nil {
		return true, ""
	}
	phi, ok := v.(*ssa.Phi)
	if !ok {
		return false, "does not flow from uri.NormalizeEscapedPath"
	}
	if seen[v] {
		return true, ""
	}
	seen[v] = true
	// find the call among the edges
	var call *ssa.Call
	for _, e := range phi.Edges {
		if c := isNorm(e); c != nil {
			call = c
		}
	}
	if call == nil {
		return false, "does not flow from uri.NormalizeEscapedPath"
	}
	okVal := extractOf(call, 1)
	falseBlocks := core.EdgeBlocks(okVal, false)
	for i, e := range phi.Edges {
		if isNorm(e) == call {
			continue
		}
		if !sameRawInput(e, call.Common().Args[0]) {
			return false, "can also take a value that is neither the normalised text nor the raw input"
		}
		pred := phi.Block().Preds[i]
		onFalse := false
		for _, fb := range falseBlocks {
			if fb.Dominates(pred) {
				onFalse = true
			}
		}
		// direct edge from the `if ok` block to the merge block
		if iff, isIf := pred.Instrs[len(pred.Instrs)-1].(*ssa.If); isIf {
			cond := iff.Cond
			neg := false
			if u, isU := cond.(*ssa.UnOp); isU && u.Op == token.NOT {
				cond, neg = u.X, true
			}
			if cond == okVal {
				falseSucc := pred.Succs[1]
				if neg {
					falseSucc = pred.Succs[0]
				}
				if falseSucc == phi.Block() {
					onFalse = true
				}
			}
		}
		if !onFalse {
			return false, "falls back to the raw, un-normalised text on a path where normalisation succeeded"
		}
	}
	return true, ""
}

// sameRawInput: identical values, or two loads of the same captured variable
// that is never stored to inside the function.
func sameRawInput(a, b ssa.Value) bool {
	if a == b {
		return true
	}
	la, ok1 := a.(*ssa.UnOp)
	lb, ok2 := b.(*ssa.UnOp)
	if !ok1 || !ok2 || la.Op != token.MUL || lb.Op != token.MUL || la.X != lb.X {
		return false
	}
	if _, isFree := la.X.(*ssa.FreeVar); !isFree {
		return false
	}
	for _, ref := range *la.X.Referrers() {
		if st, ok := ref.(*ssa.Store); ok && st.Addr == la.X {
			return false
		}
	}
	return true
}
