package rules

import (
	"fmt"
	"go/ast"
	"go/constant"
	"go/token"
	"go/types"
	"path/filepath"
	"sort"
	"strconv"
	"strings"

	"golang.org/x/tools/go/packages"
	"golang.org/x/tools/go/ssa"

	"ogenverif/internal/byteset"
	"ogenverif/internal/core"
	"ogenverif/internal/panicob"
	"ogenverif/internal/ssaeval"
)

func init() {
	register(&Property{
		ID: "C12",
		Meta: core.Meta{
			Level: "other",
			Explanation: "Structural part of C12 decided statically: (R12.1) every bounds check in uri/normalize.go that the compiler itself cannot prove (enumerated by the compiler's check_bce pass on the current tree) is discharged by a dominating guard found by a lexical guard recogniser with a small linear prover, or by a reviewed table entry — so NormalizeEscapedPath cannot panic for any string; " +
				"(R12.2) the byte classes are tabulated exhaustively over all 256 bytes by constant folding of the functions' syntax trees: shouldEscapePath is the complement of RFC 3986 unreserved, ishex is the 22 hex digits, unhex is their value, asciiToUpper upper-cases exactly a–f and every hex digit it changes triggers the slow path; and every unhex(x) in NormalizeEscapedPath is dominated by the true edge of ishex on the same value (SSA, structural value equality) — so an invalid escape can never be decoded; " +
				"(R12.3) every consumer compares normalised text: the argument of pathID and the text handed to the path parser flow from NormalizeEscapedPath. Idempotence, canonical output and octet preservation are value properties of the rewrite loop and are NOT decided.",
			Assumptions: []string{
				"integer overflow of index arithmetic is ignored (indices are bounded by string lengths)",
				"facts about selector-rooted values are invalidated by calls that mention their root only (no aliasing through other names)",
			},
			TrustedBase: []string{"the Go compiler's prove pass as the enumerator of unproven bounds checks (-d=ssa/check_bce)", "tables/panic_justified.json (reviewed reasons)"},
		},
		Run: runC12,
	})
}

func findPkg(pkgs []*packages.Package, path string) *packages.Package {
	var out *packages.Package
	packages.Visit(pkgs, nil, func(p *packages.Package) {
		if p.PkgPath == path {
			out = p
		}
	})
	return out
}

func funcDecl(p *packages.Package, name string) *ast.FuncDecl {
	for _, f := range p.Syntax {
		for _, d := range f.Decls {
			if fd, ok := d.(*ast.FuncDecl); ok && fd.Recv == nil && fd.Name.Name == name {
				return fd
			}
		}
	}
	return nil
}

func byteSetString(bs []byte) string {
	var sb strings.Builder
	for i := 0; i < len(bs); {
		j := i
		for j+1 < len(bs) && bs[j+1] == bs[j]+1 {
			j++
		}
		if sb.Len() > 0 {
			sb.WriteByte(' ')
		}
		if j > i {
			fmt.Fprintf(&sb, "%q-%q", bs[i], bs[j])
		} else {
			fmt.Fprintf(&sb, "%q", bs[i])
		}
		i = j + 1
	}
	return sb.String()
}

func setOf(s string) map[byte]bool {
	m := map[byte]bool{}
	for i := 0; i < len(s); i++ {
		m[s[i]] = true
	}
	return m
}

const (
	unreserved = "abcdefghijklmnopqrstuvwxyzABCDEFGHIJKLMNOPQRSTUVWXYZ0123456789-._~"
	hexDigits  = "0123456789abcdefABCDEF"
)

func hexVal(c byte) int64 {
	switch {
	case c >= '0' && c <= '9':
		return int64(c - '0')
	case c >= 'a' && c <= 'f':
		return int64(c-'a') + 10
	default:
		return int64(c-'A') + 10
	}
}

func runC12(c *core.Ctx) error {
	prog, err := c.Program("./uri", "./openapi/parser")
	if err != nil {
		return err
	}
	uriPkg := prog.PkgBy[pkgURI]
	if uriPkg == nil {
		return fmt.Errorf("package uri not loaded")
	}
	table, err := panicob.LoadTable(c.VerifDir, "panic_justified.json")
	if err != nil {
		return err
	}

	// ---- R12.1
	r1 := c.NewRule("R12.1", "S1", "unproven bounds checks in uri/normalize.go are dominated by guards", 4)
	sites, err := panicob.Bounds(c, []*packages.Package{uriPkg})
	if err != nil {
		return err
	}
	panicob.Discharge(c, r1, sites, panicob.Options{Table: table, Filter: func(s *panicob.Site) bool {
		return filepath.Base(s.Pos.Filename) == "normalize.go"
	}})

	// ---- R12.2 byte tables
	r2 := c.NewRule("R12.2", "S1", "byte classes equal RFC 3986 / hex tables (exhaustive over 256 bytes); unhex only after ishex on the same value", 8)
	opt := byteset.Options{Callee: func(o types.Object) *ast.FuncDecl {
		if o == nil || o.Pkg() == nil || o.Pkg().Path() != pkgURI {
			return nil
		}
		return funcDecl(uriPkg, o.Name())
	}}
	tab := func(name string) *byteset.Table {
		fd := funcDecl(uriPkg, name)
		if fd == nil {
			r2.Undecided("anchor:"+name, "-", "function uri."+name+" not found")
			return nil
		}
		t, err := byteset.EvalFunc(uriPkg.TypesInfo, fd, opt)
		if err != nil {
			r2.Undecided("table:"+name, c.Pos(fd.Pos()), "uri."+name+" is outside the constant-folding fragment: "+err.Error())
			return nil
		}
		return t
	}
	if t := tab("shouldEscapePath"); t != nil {
		un := setOf(unreserved)
		var bad []byte
		for i := 0; i < 256; i++ {
			if t.Bool[i] == un[byte(i)] {
				bad = append(bad, byte(i))
			}
		}
		if len(bad) == 0 {
			r2.Pass("shouldEscapePath is false exactly on RFC 3986 unreserved (66 bytes), 256 bytes tabulated")
		} else {
			r2.Fail("shouldEscapePath", c.Pos(funcDecl(uriPkg, "shouldEscapePath").Pos()), "shouldEscapePath disagrees with RFC 3986 §2.3 unreserved on bytes "+byteSetString(bad))
		}
	}
	hx := setOf(hexDigits)
	if t := tab("ishex"); t != nil {
		var bad []byte
		for i := 0; i < 256; i++ {
			if t.Bool[i] != hx[byte(i)] {
				bad = append(bad, byte(i))
			}
		}
		if len(bad) == 0 {
			r2.Pass("ishex is true exactly on the 22 hex digits")
		} else {
			r2.Fail("ishex", c.Pos(funcDecl(uriPkg, "ishex").Pos()), "ishex disagrees with the hex-digit set on bytes "+byteSetString(bad))
		}
	}
	if t := tab("unhex"); t != nil {
		var bad []byte
		for i := 0; i < len(hexDigits); i++ {
			if t.Byte[hexDigits[i]] != hexVal(hexDigits[i]) {
				bad = append(bad, hexDigits[i])
			}
		}
		if len(bad) == 0 {
			r2.Pass("unhex maps each hex digit to its value")
		} else {
			r2.Fail("unhex", c.Pos(funcDecl(uriPkg, "unhex").Pos()), "unhex gives a wrong value for "+byteSetString(bad))
		}
	}
	up := tab("asciiToUpper")
	low := tab("asciiIsLowercase")
	if up != nil {
		var bad []byte
		for i := 0; i < len(hexDigits); i++ {
			ch := hexDigits[i]
			got := up.Byte[ch]
			want := int64(ch)
			if ch >= 'a' && ch <= 'f' {
				want = int64(ch - 'a' + 'A')
			}
			if got != want {
				bad = append(bad, ch)
			}
		}
		if len(bad) == 0 {
			r2.Pass("asciiToUpper upper-cases a–f and fixes every other hex digit")
		} else {
			r2.Fail("asciiToUpper", c.Pos(funcDecl(uriPkg, "asciiToUpper").Pos()), "asciiToUpper is wrong on hex digits "+byteSetString(bad))
		}
	}
	if up != nil && low != nil {
		var bad []byte
		for i := 0; i < len(hexDigits); i++ {
			ch := hexDigits[i]
			if up.Byte[ch] != int64(ch) && !low.Bool[ch] {
				bad = append(bad, ch)
			}
		}
		if len(bad) == 0 {
			r2.Pass("every hex digit asciiToUpper changes satisfies asciiIsLowercase (so the fast scan sends it to the rewriting path)")
		} else {
			r2.Fail("asciiIsLowercase", c.Pos(funcDecl(uriPkg, "asciiIsLowercase").Pos()), "hex digits "+byteSetString(bad)+" need upper-casing but do not trigger the rewriting path")
		}
	}

	// unhex dominated by ishex
	nfn := prog.Func(pkgURI, "NormalizeEscapedPath")
	ishexFn := prog.Func(pkgURI, "ishex")
	unhexFn := prog.Func(pkgURI, "unhex")
	if nfn == nil || ishexFn == nil || unhexFn == nil {
		r2.Undecided("anchor:NormalizeEscapedPath", "-", "uri.NormalizeEscapedPath / ishex / unhex not found")
	} else {
		var ishexCalls []*ssa.Call
		for _, call := range core.Calls(nfn) {
			if cl, ok := call.(*ssa.Call); ok && call.Common().StaticCallee() == ishexFn {
				ishexCalls = append(ishexCalls, cl)
			}
		}
		ord := map[string]int{}
		var unhexCalls []ssa.CallInstruction
		for _, call := range core.Calls(nfn) {
			if call.Common().StaticCallee() == unhexFn {
				unhexCalls = append(unhexCalls, call)
			}
		}
		sort.Slice(unhexCalls, func(i, j int) bool { return unhexCalls[i].Pos() < unhexCalls[j].Pos() })
		for _, call := range unhexCalls {
			arg := call.Common().Args[0]
			ok := false
			for _, ic := range ishexCalls {
				if !core.SameValue(arg, ic.Common().Args[0]) {
					continue
				}
				for _, eb := range core.EdgeBlocks(ic, true) {
					if eb.Dominates(call.Block()) {
						ok = true
					}
				}
			}
			e := exprOfArg(c, prog, call)
			key := fmt.Sprintf("NormalizeEscapedPath:unhex(%s)#%d", e, ord[e])
			ord[e]++
			if ok {
				r2.Pass(key + " dominated by ishex on the same value")
			} else {
				r2.Fail(key, c.Pos(call.Pos()), "unhex is applied to a byte that no dominating ishex test has validated: an invalid escape such as %zz is decoded instead of being reported")
			}
		}
	}

	checkEscapeDecisionTables(c, prog)

	// ---- R12.3 consumers
	r3 := c.NewRule("R12.3", "S1", "consumers compare normalised text (pathID argument, path parser input)", 2)
	normFn := nfn
	checkFlows := func(fn *ssa.Function, sinkDesc string, sinks []ssa.Value, pos token.Pos) {
		if len(sinks) == 0 {
			r3.Undecided("anchor:"+sinkDesc, c.Pos(pos), "no "+sinkDesc+" found")
			return
		}
		for i, v := range sinks {
			key := fmt.Sprintf("%s:%s#%d", fn.Name(), sinkDesc, i)
			ok, why := normalizedOrInvalid(v, normFn, map[ssa.Value]bool{})
			if ok {
				r3.Pass(key + " is NormalizeEscapedPath's output, or its raw input only on the edge where normalisation reported an invalid escape")
			} else {
				r3.Fail(key, c.Pos(pos), sinkDesc+" "+why+": equivalent spellings of a path are treated as different")
			}
		}
	}
	if ppi := prog.Func(pkgParser, "parser.parsePathItems"); ppi == nil {
		r3.Undecided("anchor:parsePathItems", "-", "openapi/parser.(*parser).parsePathItems not found")
	} else {
		// every call of pathID in the package (the path-key bookkeeping may live in a helper of parsePathItems)
		var sinks []ssa.Value
		var pathIDCallers []*ssa.Function
		for _, top := range core.PkgFuncs(prog.SSA, prog.ByPath[pkgParser]) {
			for _, f := range core.AllFuncs(top) {
				if f.Name() == "pathID" {
					continue
				}
				has := false
				for _, call := range core.Calls(f) {
					if core.IsCallTo(call.Common(), pkgParser, "pathID") {
						sinks = append(sinks, call.Common().Args[0])
						has = true
					}
				}
				if has {
					pathIDCallers = append(pathIDCallers, f)
				}
			}
		}
		checkFlows(ppi, "argument of pathID", sinks, ppi.Pos())
		// every path key is entered into the duplicate table before it counts as accepted
		for _, f := range pathIDCallers {
			for _, call := range core.Calls(f) {
				if !core.IsCallTo(call.Common(), pkgParser, "pathID") {
					continue
				}
				cv, ok := call.(*ssa.Call)
				if !ok {
					continue
				}
				var id ssa.Value
				for _, ref := range *cv.Referrers() {
					if ex, ok := ref.(*ssa.Extract); ok && ex.Index == 0 {
						id = ex
					}
				}
				var inserts []*ssa.MapUpdate
				for _, b := range f.Blocks {
					for _, in := range b.Instrs {
						if mu, ok := in.(*ssa.MapUpdate); ok && id != nil && mu.Key == id {
							inserts = append(inserts, mu)
						}
					}
				}
				dominated := func(at ssa.Instruction) bool {
					for _, mu := range inserts {
						if mu.Block() == at.Block() {
							for _, in := range mu.Block().Instrs {
								if in == ssa.Instruction(mu) {
									return true
								}
								if in == at {
									break
								}
							}
						} else if mu.Block().Dominates(at.Block()) {
							return true
						}
					}
					return false
				}
				n := 0
				if f != ppi {
					for _, b := range f.Blocks {
						ret, ok := b.Instrs[len(b.Instrs)-1].(*ssa.Return)
						if !ok || len(ret.Results) == 0 || !core.IsNilConst(ret.Results[len(ret.Results)-1]) {
							continue
						}
						n++
						if dominated(ret) {
							r3.Pass("parsePathItems: a path key is accepted only after its identity was entered into the duplicate table")
						} else {
							r3.Fail("parsePathItems:accept-without-register", c.Pos(ret.Pos()), "a path key is accepted (the per-key check returns nil) on a path that does not enter its normalised identity into the duplicate table: a later equivalent spelling of the same path is not reported as a duplicate")
						}
					}
				} else {
					for _, pc := range core.Calls(ppi) {
						if strings.HasSuffix(core.CalleeName(pc.Common()), ".parsePathItem") {
							n++
							if dominated(pc) {
								r3.Pass("parsePathItems: parsePathItem runs only after the key's identity was entered into the duplicate table")
							} else {
								r3.Fail("parsePathItems:accept-without-register", c.Pos(pc.Pos()), "parsePathItem is reachable for a key whose normalised identity was not entered into the duplicate table")
							}
						}
					}
				}
				if n == 0 {
					r3.Undecided("parsePathItems:register", c.Pos(call.Pos()), "no accepting exit found after pathID")
				}
			}
		}
	}
	if pp := prog.Func(pkgParser, "parsePath"); pp == nil {
		r3.Undecided("anchor:parsePath", "-", "openapi/parser.parsePath not found")
	} else {
		var sinks []ssa.Value
		for _, b := range pp.Blocks {
			for _, in := range b.Instrs {
				st, ok := in.(*ssa.Store)
				if !ok {
					continue
				}
				if fa, ok := st.Addr.(*ssa.FieldAddr); ok && fieldName(fa.X.Type(), fa.Field) == "path" {
					sinks = append(sinks, st.Val)
				}
			}
		}
		checkFlows(pp, "pathParser.path", sinks, pp.Pos())
	}
	return nil
}

// exprOfArg renders the source expression of a call's first argument.
func exprOfArg(c *core.Ctx, prog *core.Prog, call ssa.CallInstruction) string {
	pos := call.Pos()
	fn := call.Parent()
	pkg := prog.PkgBy[core.FuncPkgPath(fn)]
	if pkg == nil {
		return "?"
	}
	for _, f := range pkg.Syntax {
		if f.Pos() <= pos && pos < f.End() {
			var out string
			ast.Inspect(f, func(n ast.Node) bool {
				if ce, ok := n.(*ast.CallExpr); ok && ce.Lparen == pos && len(ce.Args) > 0 {
					out = types.ExprString(ce.Args[0])
				}
				return out == ""
			})
			if out != "" {
				return out
			}
		}
	}
	return "?"
}

// normalizedOrInvalid: v is Extract#0 of a NormalizeEscapedPath call, or a phi
// whose every other incoming value is that call's own argument arriving on
// the ok==false edge.
func normalizedOrInvalid(v ssa.Value, normFn *ssa.Function, seen map[ssa.Value]bool) (bool, string) {
	isNorm := func(x ssa.Value) *ssa.Call {
		if ex, ok := x.(*ssa.Extract); ok && ex.Index == 0 {
			if call, ok := ex.Tuple.(*ssa.Call); ok && call.Common().StaticCallee() == normFn {
				return call
			}
		}
		return nil
	}
	if isNorm(v) != nil {
		return true, ""
	}
	phi, ok := v.(*ssa.Phi)
	if !ok {
		return false, "does not flow from uri.NormalizeEscapedPath"
	}
	if seen[v] {
		return true, ""
	}
	seen[v] = true
	// find the call among the edges
	var call *ssa.Call
	for _, e := range phi.Edges {
		if c := isNorm(e); c != nil {
			call = c
		}
	}
	if call == nil {
		return false, "does not flow from uri.NormalizeEscapedPath"
	}
	okVal := extractOf(call, 1)
	falseBlocks := core.EdgeBlocks(okVal, false)
	for i, e := range phi.Edges {
		if isNorm(e) == call {
			continue
		}
		if !sameRawInput(e, call.Common().Args[0]) {
			return false, "can also take a value that is neither the normalised text nor the raw input"
		}
		pred := phi.Block().Preds[i]
		onFalse := false
		for _, fb := range falseBlocks {
			if fb.Dominates(pred) {
				onFalse = true
			}
		}
		// direct edge from the `if ok` block to the merge block
		if iff, isIf := pred.Instrs[len(pred.Instrs)-1].(*ssa.If); isIf {
			cond := iff.Cond
			neg := false
			if u, isU := cond.(*ssa.UnOp); isU && u.Op == token.NOT {
				cond, neg = u.X, true
			}
			if cond == okVal {
				falseSucc := pred.Succs[1]
				if neg {
					falseSucc = pred.Succs[0]
				}
				if falseSucc == phi.Block() {
					onFalse = true
				}
			}
		}
		if !onFalse {
			return false, "falls back to the raw, un-normalised text on a path where normalisation succeeded"
		}
	}
	return true, ""
}

// sameRawInput: identical values, or two loads of the same captured variable
// that is never stored to inside the function.
func sameRawInput(a, b ssa.Value) bool {
	if a == b {
		return true
	}
	la, ok1 := a.(*ssa.UnOp)
	lb, ok2 := b.(*ssa.UnOp)
	if !ok1 || !ok2 || la.Op != token.MUL || lb.Op != token.MUL || la.X != lb.X {
		return false
	}
	if _, isFree := la.X.(*ssa.FreeVar); !isFree {
		return false
	}
	for _, ref := range *la.X.Referrers() {
		if st, ok := ref.(*ssa.Store); ok && st.Addr == la.X {
			return false
		}
	}
	return true
}

// checkEscapeDecisionTables (R12.4) tabulates, over every pair of bytes (a, b)
// that can follow a '%', the two decisions NormalizeEscapedPath makes about one
// escape, by constant-folding the function's SSA from the block where the
// escape starts (the string reads at +1 / +2 bound to a and b, the length tests
// assumed to pass):
//
//	fast scan:  invalid | keep (the escape is already in normal form) | rewrite
//	rewriting:  invalid | the bytes written for the escape
//
// and compares both tables with the definition: invalid iff a or b is not a hex
// digit; otherwise the escape stands for the octet v = 16·hex(a)+hex(b), whose
// normal form is the octet itself if it is RFC 3986 unreserved and '%' + upper
// hex otherwise; keep iff the input already is that normal form.
func checkEscapeDecisionTables(c *core.Ctx, prog *core.Prog) {
	r := c.NewRule("R12.4", "S1", "per-escape decision tables of NormalizeEscapedPath (fast scan and rewriting loop) equal the definition on all 65536 byte pairs", 2)
	fn := prog.Func(pkgURI, "NormalizeEscapedPath")
	if fn == nil {
		r.Undecided("anchor:NormalizeEscapedPath", "-", "uri.NormalizeEscapedPath not found")
		return
	}
	isLenCall := func(v ssa.Value) bool {
		call, ok := v.(*ssa.Call)
		if !ok {
			return false
		}
		b, ok := call.Common().Value.(*ssa.Builtin)
		return ok && b.Name() == "len"
	}
	// string reads base+1 / base+2 grouped by base
	type rd struct {
		lk ssa.Value
		k  int64
	}
	// a string byte read: (string operand, index operand)
	strRead := func(in ssa.Instruction) (ssa.Value, ssa.Value, ssa.Value) {
		var v, x, i ssa.Value
		switch r := in.(type) {
		case *ssa.Lookup:
			v, x, i = r, r.X, r.Index
		case *ssa.Index:
			v, x, i = r, r.X, r.Index
		default:
			return nil, nil, nil
		}
		if bt, ok := x.Type().Underlying().(*types.Basic); !ok || bt.Info()&types.IsString == 0 {
			return nil, nil, nil
		}
		return v, x, i
	}
	reads := map[ssa.Value][]rd{}
	var builderBlock *ssa.BasicBlock
	var lenTests []*ssa.BinOp
	for _, b := range fn.Blocks {
		for _, in := range b.Instrs {
			if v, _, i := strRead(in); v != nil {
				if bo, ok := i.(*ssa.BinOp); ok && bo.Op == token.ADD {
					if k, ok := bo.Y.(*ssa.Const); ok && k.Value != nil {
						reads[bo.X] = append(reads[bo.X], rd{v, k.Int64()})
					}
				}
				continue
			}
			switch x := in.(type) {
			case *ssa.Alloc:
				if strings.HasSuffix(x.Type().String(), "strings.Builder") && builderBlock == nil {
					builderBlock = x.Block()
				}
			case *ssa.BinOp:
				if isLenCall(x.X) || isLenCall(x.Y) {
					lenTests = append(lenTests, x)
				}
			}
		}
	}
	hexv := func(ch int) int {
		switch {
		case '0' <= ch && ch <= '9':
			return ch - '0'
		case 'a' <= ch && ch <= 'f':
			return ch - 'a' + 10
		case 'A' <= ch && ch <= 'F':
			return ch - 'A' + 10
		}
		return -1
	}
	un := setOf(unreserved)
	const upperHex = "0123456789ABCDEF"
	// the normal form of %ab
	want := func(a, b int) (valid bool, out []byte) {
		ha, hb := hexv(a), hexv(b)
		if ha < 0 || hb < 0 {
			return false, nil
		}
		v := byte(ha<<4 | hb)
		if un[v] {
			return true, []byte{v}
		}
		return true, []byte{'%', upperHex[ha], upperHex[hb]}
	}
	newEnv := func(base ssa.Value, a, b int) *ssaeval.Env {
		env := &ssaeval.Env{Bind: map[ssa.Value]ssaeval.Val{}, Budget: 4000}
		for _, x := range reads[base] {
			switch x.k {
			case 1:
				env.Bind[x.lk] = constant.MakeInt64(int64(a))
			case 2:
				env.Bind[x.lk] = constant.MakeInt64(int64(b))
			}
		}
		for _, t := range lenTests {
			// "x within the string" is assumed: x >= len, x > len are false; x < len, x <= len are true
			inRange := t.Op == token.LSS || t.Op == token.LEQ
			if isLenCall(t.X) { // len on the left: len > x, len >= x true; len <= x, len < x false
				inRange = t.Op == token.GTR || t.Op == token.GEQ
			}
			env.Bind[t] = constant.MakeBool(inRange)
		}
		return env
	}
	describe := func(pairs [][2]int) string {
		var parts []string
		for i, p := range pairs {
			if i >= 6 {
				parts = append(parts, fmt.Sprintf("… (%d pairs)", len(pairs)))
				break
			}
			parts = append(parts, escPair(p[0], p[1]))
		}
		return strings.Join(parts, " ")
	}
	printable := func(a, b int) bool { return a >= 0x21 && a < 0x7f && b >= 0x21 && b < 0x7f }

	// ---- fast scan
	var idx *ssa.Call
	for _, call := range core.Calls(fn) {
		if cv, ok := call.(*ssa.Call); ok && core.IsCallTo(call.Common(), "strings", "IndexByte") {
			idx = cv
		}
	}
	var keep *ssa.Slice
	if idx != nil {
		for _, b := range fn.Blocks {
			for _, in := range b.Instrs {
				if sl, ok := in.(*ssa.Slice); ok && sl.High == nil {
					if bo, ok := sl.Low.(*ssa.BinOp); ok && bo.Op == token.ADD && bo.X == ssa.Value(idx) {
						if k, ok := bo.Y.(*ssa.Const); ok && k.Int64() == 3 {
							keep = sl
						}
					}
				}
			}
		}
	}
	if idx == nil || keep == nil || builderBlock == nil || len(reads[idx]) < 2 {
		r.Undecided("fast-scan:shape", c.Pos(fn.Pos()), "the fast scan is not of the recognised shape (idx := strings.IndexByte(iter, '%'); reads at idx+1, idx+2; keep = iter[idx+3:]; rewriting starts where the strings.Builder is allocated): its decision table cannot be tabulated")
	} else {
		// start after the `idx < 0` test
		var start *ssa.BasicBlock
		for _, ref := range *idx.Referrers() {
			if bo, ok := ref.(*ssa.BinOp); ok && bo.Op == token.LSS {
				for _, u := range *bo.Referrers() {
					if iff, ok := u.(*ssa.If); ok {
						start = iff.Block().Succs[1]
					}
				}
			}
		}
		if start == nil {
			r.Undecided("fast-scan:start", c.Pos(idx.Pos()), "no `idx < 0` test after strings.IndexByte")
		} else {
			var bad [][2]int
			var firstWhy string
			for a := 0; a < 256; a++ {
				for b := 0; b < 256; b++ {
					env := newEnv(idx, a, b)
					env.StopAt = map[ssa.Instruction]bool{keep: true}
					env.StopBlock = map[*ssa.BasicBlock]bool{builderBlock: true}
					out := env.Walk(start, start.Preds[0])
					got := "?"
					switch {
					case out.Kind == "stop" && out.Stop == ssa.Instruction(keep):
						got = "keep"
					case out.Kind == "stop":
						got = "rewrite"
					case out.Kind == "return" && len(out.Results) == 2 && out.Results[1] != nil && out.Results[1].Kind() == constant.Bool && !constant.BoolVal(out.Results[1]):
						got = "invalid"
					case out.Kind == "return":
						got = "returns success"
					default:
						got = "unknown: " + out.Why
					}
					valid, nf := want(a, b)
					exp := "invalid"
					if valid {
						exp = "rewrite"
						if len(nf) == 3 && int(nf[1]) == a && int(nf[2]) == b {
							exp = "keep"
						}
					}
					if got != exp {
						if printable(a, b) || len(bad) == 0 {
							bad = append(bad, [2]int{a, b})
						}
						if firstWhy == "" {
							firstWhy = fmt.Sprintf("%s: the scan decides %q, the definition says %q", escPair(a, b), got, exp)
						}
					}
				}
			}
			if len(bad) == 0 {
				r.Pass("fast scan: 65536 byte pairs tabulated; invalid / keep / rewrite agree with the definition")
			} else {
				r.Fail("fast-scan:table", c.Pos(idx.Pos()), fmt.Sprintf("the fast scan's decision differs from the definition of the normal form, e.g. %s (also %s): an escape that is not in normal form is kept, or a valid one rejected", firstWhy, describe(bad)))
			}
		}
	}

	// ---- rewriting loop: start where s[i] == '%'
	var start *ssa.BasicBlock
	var loopVar ssa.Value
	for _, b := range fn.Blocks {
		iff, ok := b.Instrs[len(b.Instrs)-1].(*ssa.If)
		if !ok || builderBlock == nil || !builderBlock.Dominates(b) {
			continue
		}
		bo, ok := iff.Cond.(*ssa.BinOp)
		if !ok || bo.Op != token.EQL {
			continue
		}
		lkI, isI := bo.X.(ssa.Instruction)
		if !isI {
			continue
		}
		lv, _, li := strRead(lkI)
		k, ok2 := bo.Y.(*ssa.Const)
		if lv != nil && ok2 && k.Value != nil && k.Int64() == '%' {
			start, loopVar = b.Succs[0], li
		}
	}
	if start == nil || len(reads[loopVar]) < 2 {
		r.Undecided("rewrite:shape", c.Pos(fn.Pos()), "the rewriting loop is not of the recognised shape (switch s[i] { case '%': … reads at i+1, i+2 … }): its per-escape output cannot be tabulated")
		return
	}
	phi, _ := loopVar.(*ssa.Phi)
	if phi == nil {
		r.Undecided("rewrite:loopvar", c.Pos(fn.Pos()), "the rewriting loop's index is not a loop-carried variable")
		return
	}
	var bad [][2]int
	var firstWhy string
	for a := 0; a < 256; a++ {
		for b := 0; b < 256; b++ {
			env := newEnv(loopVar, a, b)
			env.StopBlock = map[*ssa.BasicBlock]bool{phi.Block(): true}
			var written []byte
			okTrace := true
			env.OnCall = func(call *ssa.Call, args []ssaeval.Val) {
				name := core.CalleeName(call.Common())
				switch name {
				case "(*strings.Builder).WriteByte":
					if len(args) == 2 && args[1] != nil {
						v, _ := constant.Int64Val(args[1])
						written = append(written, byte(v))
					} else {
						okTrace = false
					}
				case "(*strings.Builder).WriteString", "(*strings.Builder).Write", "(*strings.Builder).WriteRune":
					okTrace = false
				}
			}
			out := env.Walk(start, start.Preds[0])
			got := ""
			switch {
			case out.Kind == "stop" && okTrace:
				got = "writes " + strconv.Quote(string(written))
			case out.Kind == "return" && len(out.Results) == 2 && out.Results[1] != nil && out.Results[1].Kind() == constant.Bool && !constant.BoolVal(out.Results[1]):
				got = "invalid"
			default:
				got = "unknown: " + out.Kind + " " + out.Why
			}
			valid, nf := want(a, b)
			exp := "invalid"
			if valid {
				exp = "writes " + strconv.Quote(string(nf))
			}
			if got != exp {
				if printable(a, b) || len(bad) == 0 {
					bad = append(bad, [2]int{a, b})
				}
				if firstWhy == "" {
					firstWhy = fmt.Sprintf("%s: the loop %s, the definition says %s", escPair(a, b), got, exp)
				}
			}
		}
	}
	// the loop must advance by exactly the three bytes of the escape
	adv := false
	for i, e := range phi.Edges {
		_ = i
		if bo, ok := e.(*ssa.BinOp); ok && bo.Op == token.ADD && bo.X == ssa.Value(phi) {
			if k, ok := bo.Y.(*ssa.Const); ok && k.Int64() == 3 {
				adv = true
			}
		}
	}
	switch {
	case len(bad) > 0:
		r.Fail("rewrite:table", c.Pos(start.Instrs[0].Pos()), fmt.Sprintf("the rewriting loop's output for one escape differs from the normal form, e.g. %s (also %s)", firstWhy, describe(bad)))
	case !adv:
		r.Fail("rewrite:advance", c.Pos(start.Instrs[0].Pos()), "the rewriting loop does not advance by 3 after an escape")
	default:
		r.Pass("rewriting loop: 65536 byte pairs tabulated; invalid / written bytes agree with the normal form; advances by 3")
	}
}

// escPair prints the escape %ab with non-printable bytes as \xNN.
func escPair(a, b int) string {
	one := func(c int) string {
		if c >= 0x21 && c < 0x7f {
			return string(rune(c))
		}
		return fmt.Sprintf("\\x%02X", c)
	}
	return "%" + one(a) + one(b)
}
