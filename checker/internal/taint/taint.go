// Package taint is a context-insensitive, flow-insensitive taint propagation
// over go/ssa for one question: which strings can carry text taken verbatim
// from the input document (fields of the spec-model structs) without having
// passed a sanitiser. Facts are attached to SSA values, to struct fields
// (field-based: one fact per field declaration), to allocations, to globals,
// and to function results. The propagation is a monotone forward fixpoint.
package taint

import (
	"fmt"
	"go/constant"
	"go/token"
	"go/types"
	"sort"
	"strings"

	"golang.org/x/tools/go/callgraph"
	"golang.org/x/tools/go/ssa"
	"golang.org/x/tools/go/ssa/ssautil"

	"ogenverif/internal/core"
)

// Config parametrises the analysis.
type Config struct {
	// SourcePkgs: string-carrying fields of structs declared here are sources.
	SourcePkgs map[string]bool
	// SourceTagPkgs: in these packages only fields decoded from the document (a json:/yaml: struct tag) are sources.
	SourceTagPkgs map[string]bool
	// CleanSources: "pkg.Type.Field" → reason the field is validated at parse time.
	CleanSources map[string]string
	// Guards: functions whose true result certifies their string argument (token.IsIdentifier …).
	Guards map[string]bool
	// Sanitisers: external or module functions whose result is clean whatever the arguments.
	Sanitisers map[string]bool
	// SourceFuncs: results of these functions (core.FuncName) are sources ("Go type text", for the identifier question).
	SourceFuncs map[string]bool
	// NegGuardCall: a call whose FALSE result certifies its first argument (strings.ContainsAny(s, "\r\n")).
	NegGuardCall func(*ssa.CallCommon) bool
	// SanitiserCall: call-site sensitive sanitisers (strings.Split(x, "\n") for the newline question).
	SanitiserCall func(*ssa.CallCommon) bool
	// InScope: functions whose bodies are analysed.
	InScope func(*ssa.Function) bool
	// Seeds are tainted from the start (used for parameter-to-result queries).
	Seeds map[ssa.Value]*Fact
	// NoSources switches document sources off (parameter-to-result queries).
	NoSources bool
	// SyntheticParams: text parameters of these functions (callable from templates, where no Go call site exists)
	// start with an assumed-tainted synthetic fact, so that their parameter→result flows are discovered.
	SyntheticParams map[*ssa.Function]bool
	// NoParamTaint: parameters of these functions are not tainted by their Go call sites, so that their result
	// facts are intrinsic (what the function itself reads), not inherited from some caller.
	NoParamTaint map[*ssa.Function]bool
}

// Fact explains why something is tainted.
type Fact struct {
	Pos    token.Pos
	What   string
	Parent *Fact
	// ParamOf/ParamIdx: this link is "the value entered ParamOf through parameter ParamIdx".
	ParamOf  *ssa.Function
	ParamIdx int
	// Barrier: the value was parked in a field / global here; what happened before belongs to another activation.
	Barrier bool
	// Synthetic: an assumed-tainted template argument (root of the chain), used only to discover parameter→result flows.
	Synthetic bool
}

// paramOrigin: within the current activation, did the value enter fn through a parameter?
func paramOrigin(f *Fact, fn *ssa.Function) (int, bool) {
	for x, n := f, 0; x != nil && n < 200; x, n = x.Parent, n+1 {
		if x.Barrier {
			return 0, false
		}
		if x.ParamOf == fn {
			return x.ParamIdx, true
		}
	}
	return 0, false
}

func syntheticRoot(f *Fact) bool {
	for x, n := f, 0; x != nil && n < 400; x, n = x.Parent, n+1 {
		if x.Synthetic {
			return true
		}
	}
	return false
}

// Chain renders the explanation, innermost cause last.
func (f *Fact) Chain(c *core.Ctx) string {
	var parts []string
	seen := 0
	for x := f; x != nil && seen < 16; x = x.Parent {
		parts = append(parts, fmt.Sprintf("%s (%s)", x.What, c.Pos(x.Pos)))
		seen++
	}
	return strings.Join(parts, " ← ")
}

// Analysis is the result.
type Analysis struct {
	cfg      Config
	prog     *core.Prog
	cg       *callgraph.Graph
	Val      map[ssa.Value]*Fact
	Key      map[ssa.Value]*Fact // taint of the keys of a map value, kept apart from its elements
	Field    map[*types.Var]*Fact
	FieldKey map[*types.Var]*Fact
	RetKey   map[*ssa.Function]map[int]*Fact
	// RetFromParam[fn][result][param]: the parameter can reach the result unsanitised
	RetFromParam     map[*ssa.Function]map[int]map[int]bool
	Ret              map[*ssa.Function]map[int]*Fact
	UsedCleanSources map[string]bool
	Sources          int
	changed          bool
	Iter             int
	Funcs            int
}

// RunFuncs computes the fixpoint over an explicit set of functions.
func RunFuncs(prog *core.Prog, cfg Config, set map[*ssa.Function]bool) *Analysis {
	a := &Analysis{cfg: cfg, prog: prog, cg: prog.CHA(), Val: map[ssa.Value]*Fact{}, Key: map[ssa.Value]*Fact{}, FieldKey: map[*types.Var]*Fact{}, RetKey: map[*ssa.Function]map[int]*Fact{}, RetFromParam: map[*ssa.Function]map[int]map[int]bool{}, Field: map[*types.Var]*Fact{}, Ret: map[*ssa.Function]map[int]*Fact{}, UsedCleanSources: map[string]bool{}}
	var fns []*ssa.Function
	for f := range set {
		if f.Blocks != nil {
			fns = append(fns, f)
		}
	}
	sort.Slice(fns, func(i, j int) bool { return fns[i].String() < fns[j].String() })
	a.Funcs = len(fns)
	for v, f := range cfg.Seeds {
		a.Val[v] = f
	}
	for fn := range cfg.SyntheticParams {
		for i, prm := range fn.Params {
			if textParam(prm.Type()) {
				a.Val[prm] = &Fact{Pos: prm.Pos(), What: "template argument " + prm.Name() + " of " + core.FuncName(fn), ParamOf: fn, ParamIdx: i, Synthetic: true}
			}
		}
	}
	for a.Iter = 0; a.Iter < 50; a.Iter++ {
		a.changed = false
		for _, f := range fns {
			a.function(f)
		}
		if !a.changed {
			break
		}
	}
	return a
}

// Run computes the fixpoint.
func Run(prog *core.Prog, cfg Config) *Analysis {
	a := &Analysis{cfg: cfg, prog: prog, cg: prog.CHA(), Val: map[ssa.Value]*Fact{}, Key: map[ssa.Value]*Fact{}, FieldKey: map[*types.Var]*Fact{}, RetKey: map[*ssa.Function]map[int]*Fact{}, RetFromParam: map[*ssa.Function]map[int]map[int]bool{}, Field: map[*types.Var]*Fact{}, Ret: map[*ssa.Function]map[int]*Fact{}, UsedCleanSources: map[string]bool{}}
	var fns []*ssa.Function
	for f := range ssautil.AllFunctions(prog.SSA) {
		if f.Blocks != nil && cfg.InScope(f) {
			fns = append(fns, f)
		}
	}
	sort.Slice(fns, func(i, j int) bool { return fns[i].String() < fns[j].String() })
	a.Funcs = len(fns)
	for v, f := range cfg.Seeds {
		a.Val[v] = f
	}
	for fn := range cfg.SyntheticParams {
		for i, prm := range fn.Params {
			if textParam(prm.Type()) {
				a.Val[prm] = &Fact{Pos: prm.Pos(), What: "template argument " + prm.Name() + " of " + core.FuncName(fn), ParamOf: fn, ParamIdx: i, Synthetic: true}
			}
		}
	}
	for a.Iter = 0; a.Iter < 50; a.Iter++ {
		a.changed = false
		for _, f := range fns {
			a.function(f)
		}
		if !a.changed {
			break
		}
	}
	return a
}

func (a *Analysis) taintVal(v ssa.Value, f *Fact) {
	if v == nil || f == nil {
		return
	}
	if old, ok := a.Val[v]; ok {
		// upgrade: a fact that does not depend on the enclosing function's parameters (or on a synthetic
		// template argument) is stronger than one that does
		if syntheticRoot(old) && !syntheticRoot(f) {
			a.Val[v] = f
			a.changed = true
			return
		}
		if fn := valueFunc(v); fn != nil {
			if _, oldP := paramOrigin(old, fn); oldP {
				if _, newP := paramOrigin(f, fn); !newP && !syntheticRoot(f) {
					a.Val[v] = f
					a.changed = true
				}
			}
		}
		return
	}
	a.Val[v] = f
	a.changed = true
}

func valueFunc(v ssa.Value) *ssa.Function {
	switch x := v.(type) {
	case ssa.Instruction:
		return x.Parent()
	case *ssa.Parameter:
		return x.Parent()
	case *ssa.FreeVar:
		return x.Parent()
	}
	return nil
}

func textParam(t types.Type) bool {
	switch u := t.Underlying().(type) {
	case *types.Basic:
		return u.Info()&types.IsString != 0
	case *types.Interface:
		return true
	case *types.Slice:
		return textParam(u.Elem())
	}
	return false
}

func (a *Analysis) taintKey(v ssa.Value, f *Fact, depth int) {
	if v == nil || f == nil || depth > 6 {
		return
	}
	if _, ok := a.Key[v]; ok {
		return
	}
	a.Key[v] = f
	a.changed = true
	// the map object lives where it was loaded from
	switch x := v.(type) {
	case *ssa.UnOp:
		if x.Op == token.MUL {
			a.taintAddrKey(x.X, f, depth+1)
		}
	case *ssa.Phi:
		for _, e := range x.Edges {
			a.taintKey(e, f, depth+1)
		}
	case *ssa.ChangeType:
		a.taintKey(x.X, f, depth+1)
	}
}

func (a *Analysis) taintAddrKey(addr ssa.Value, f *Fact, depth int) {
	switch x := addr.(type) {
	case *ssa.FieldAddr:
		st := derefStruct(x.X.Type())
		if s, ok := st.Underlying().(*types.Struct); ok {
			fv := s.Field(x.Field)
			if _, ok := a.FieldKey[fv]; !ok {
				a.FieldKey[fv] = f
				a.changed = true
			}
		}
	default:
		if _, ok := a.Key[addr]; !ok {
			a.Key[addr] = f
			a.changed = true
		}
	}
}

func (a *Analysis) addrKeyFact(addr ssa.Value) *Fact {
	if x, ok := addr.(*ssa.FieldAddr); ok {
		st := derefStruct(x.X.Type())
		if s, ok := st.Underlying().(*types.Struct); ok {
			return a.FieldKey[s.Field(x.Field)]
		}
		return nil
	}
	return a.Key[addr]
}

func (a *Analysis) taintField(v *types.Var, f *Fact) {
	if syntheticRoot(f) {
		return // an assumed template argument says nothing about what the program stores
	}
	if _, ok := a.Field[v]; ok {
		return
	}
	a.Field[v] = &Fact{Pos: f.Pos, What: f.What, Parent: f.Parent, Barrier: true}
	a.changed = true
}

func (a *Analysis) taintRet(fn *ssa.Function, i int, f *Fact) {
	m := a.Ret[fn]
	if m == nil {
		m = map[int]*Fact{}
		a.Ret[fn] = m
	}
	if _, ok := m[i]; ok {
		return
	}
	m[i] = f
	a.changed = true
}

// carriesString: the type can hold document text.
func carriesString(t types.Type, depth int) bool {
	if depth > 4 {
		return false
	}
	switch u := t.Underlying().(type) {
	case *types.Basic:
		return u.Info()&types.IsString != 0
	case *types.Slice:
		return carriesString(u.Elem(), depth+1)
	case *types.Array:
		return carriesString(u.Elem(), depth+1)
	case *types.Map:
		return carriesString(u.Key(), depth+1) || carriesString(u.Elem(), depth+1)
	case *types.Pointer:
		if b, ok := u.Elem().Underlying().(*types.Basic); ok {
			return b.Info()&types.IsString != 0
		}
	case *types.Interface:
		return u.NumMethods() == 0 // `any` holding decoded values
	}
	return false
}

// FieldName renders pkg.Type.Field for a struct field (best effort for the owner type).
func FieldName(structT types.Type, v *types.Var) string {
	owner := "?"
	if structT != nil {
		if n, ok := types.Unalias(structT).(*types.Named); ok {
			owner = n.Obj().Name()
		}
	}
	p := ""
	if v.Pkg() != nil {
		p = core.ShortPkg(v.Pkg().Path())
	}
	return p + "." + owner + "." + v.Name()
}

// SourceField reports whether the field is a taint source.
func (a *Analysis) SourceField(structT types.Type, v *types.Var) (bool, string) {
	if a.cfg.NoSources || v.Pkg() == nil {
		return false, ""
	}
	path := v.Pkg().Path()
	switch {
	case a.cfg.SourcePkgs[path]:
	case a.cfg.SourceTagPkgs[path]:
		tagged := false
		if structT != nil {
			if st, ok := structT.Underlying().(*types.Struct); ok {
				for i := 0; i < st.NumFields(); i++ {
					if st.Field(i) == v {
						tag := st.Tag(i)
						for _, k := range []string{`json:"`, `yaml:"`} {
							if j := strings.Index(tag, k); j >= 0 && !strings.HasPrefix(tag[j+len(k):], "-") {
								tagged = true
							}
						}
					}
				}
			}
		}
		if !tagged {
			return false, ""
		}
	default:
		return false, ""
	}
	if !carriesString(v.Type(), 0) {
		return false, ""
	}
	name := FieldName(structT, v)
	if _, ok := a.cfg.CleanSources[name]; ok {
		a.UsedCleanSources[name] = true
		return false, name
	}
	return true, name
}

func derefStruct(t types.Type) types.Type {
	if p, ok := t.Underlying().(*types.Pointer); ok {
		return p.Elem()
	}
	return t
}

func (a *Analysis) fieldFact(x ssa.Value, idx int, pos token.Pos) *Fact {
	st := derefStruct(x.Type())
	s, ok := st.Underlying().(*types.Struct)
	if !ok {
		return nil
	}
	fv := s.Field(idx)
	if src, name := a.SourceField(st, fv); src {
		a.Sources++
		return &Fact{Pos: pos, What: "document text: " + name}
	}
	if f, ok := a.Field[fv]; ok {
		return &Fact{Pos: pos, What: "field " + FieldName(st, fv), Parent: f}
	}
	return nil
}

// addrFact: is the memory at addr tainted?
func (a *Analysis) addrFact(addr ssa.Value, pos token.Pos) *Fact {
	switch x := addr.(type) {
	case *ssa.FieldAddr:
		if f := a.fieldFact(x.X, x.Field, pos); f != nil {
			return f
		}
		return nil
	case *ssa.IndexAddr:
		if f := a.Val[x.X]; f != nil {
			return f
		}
		// pointer to array / slice loaded from somewhere
		if ld, ok := x.X.(*ssa.UnOp); ok && ld.Op == token.MUL {
			return a.addrFact(ld.X, pos)
		}
		return nil
	}
	return a.Val[addr]
}

// taintAddr: memory at addr receives a tainted value.
func (a *Analysis) taintAddr(addr ssa.Value, f *Fact, depth int) {
	if depth > 6 {
		return
	}
	switch x := addr.(type) {
	case *ssa.FieldAddr:
		st := derefStruct(x.X.Type())
		if s, ok := st.Underlying().(*types.Struct); ok {
			fv := s.Field(x.Field)
			if _, ok := a.cfg.CleanSources[FieldName(st, fv)]; ok {
				a.UsedCleanSources[FieldName(st, fv)] = true
				return // validated at parse time (reviewed table)
			}
			if !carriesString(fv.Type(), 0) {
				if _, isStruct := fv.Type().Underlying().(*types.Struct); !isStruct {
					if _, isIface := fv.Type().Underlying().(*types.Interface); !isIface {
						return
					}
				}
			}
			a.taintField(fv, f)
		}
	case *ssa.IndexAddr:
		a.taintContainer(x.X, f, depth+1)
	case *ssa.Global:
		if syntheticRoot(f) {
			return
		}
		a.taintVal(addr, &Fact{Pos: f.Pos, What: f.What, Parent: f.Parent, Barrier: true})
	default:
		a.taintVal(addr, f)
	}
}

func (a *Analysis) taintContainer(v ssa.Value, f *Fact, depth int) {
	if depth > 6 {
		return
	}
	a.taintVal(v, f)
	switch x := v.(type) {
	case *ssa.UnOp:
		if x.Op == token.MUL {
			a.taintAddr(x.X, f, depth+1)
		}
	case *ssa.Slice:
		a.taintContainer(x.X, f, depth+1)
	case *ssa.Phi:
		// the containers merged here are the same objects
		for _, e := range x.Edges {
			if _, ok := a.Val[e]; !ok {
				a.taintContainer(e, f, depth+1)
			}
		}
	}
}

// constGuarded: every way into b (or into a block dominating b) is the true edge of `v == <constant>`:
// inside a `case "a", "b":` arm of a switch on v the value is one of finitely many literals of the program.
func constGuarded(v ssa.Value, b *ssa.BasicBlock) bool {
	for x := b; x != nil; x = x.Idom() {
		if len(x.Preds) == 0 {
			continue
		}
		all := true
		for _, p := range x.Preds {
			iff, ok := p.Instrs[len(p.Instrs)-1].(*ssa.If)
			if !ok || p.Succs[0] != x {
				all = false
				break
			}
			cmp, ok := iff.Cond.(*ssa.BinOp)
			if !ok || cmp.Op != token.EQL {
				all = false
				break
			}
			_, cx := cmp.X.(*ssa.Const)
			_, cy := cmp.Y.(*ssa.Const)
			if !(((core.SameValue(cmp.X, v) || sameReadOnlyLoad(cmp.X, v)) && cy) || ((core.SameValue(cmp.Y, v) || sameReadOnlyLoad(cmp.Y, v)) && cx)) {
				all = false
				break
			}
		}
		if all {
			return true
		}
	}
	return false
}

// sameReadOnlyLoad: both values load the same field of a local copy that is written exactly once (a value
// receiver or parameter spilled to the stack), so they are equal.
func sameReadOnlyLoad(a, b ssa.Value) bool {
	la, ok1 := a.(*ssa.UnOp)
	lb, ok2 := b.(*ssa.UnOp)
	if !ok1 || !ok2 || la.Op != token.MUL || lb.Op != token.MUL {
		return false
	}
	fa, ok1 := la.X.(*ssa.FieldAddr)
	fb, ok2 := lb.X.(*ssa.FieldAddr)
	if !ok1 || !ok2 || fa.Field != fb.Field || fa.X != fb.X {
		return false
	}
	al, ok := fa.X.(*ssa.Alloc)
	if !ok || al.Heap {
		return false
	}
	stores := 0
	for _, ref := range *al.Referrers() {
		switch r := ref.(type) {
		case *ssa.Store:
			if r.Addr != ssa.Value(al) {
				return false
			}
			stores++
		case *ssa.FieldAddr:
			for _, r2 := range *r.Referrers() {
				if ld, ok := r2.(*ssa.UnOp); !ok || ld.Op != token.MUL {
					if _, dbg := r2.(*ssa.DebugRef); !dbg {
						return false
					}
				}
			}
		case *ssa.DebugRef:
		default:
			return false
		}
	}
	return stores == 1
}

// guardedClean: v is certified by a guard call whose true edge dominates block b.
func (a *Analysis) guardedClean(v ssa.Value, b *ssa.BasicBlock) bool {
	if constGuarded(v, b) {
		return true
	}
	// a conversion of a guarded value (string(format) inside `switch format`)
	switch x := v.(type) {
	case *ssa.Convert:
		if constGuarded(x.X, b) {
			return true
		}
	case *ssa.ChangeType:
		if constGuarded(x.X, b) {
			return true
		}
	}
	refs := v.Referrers()
	if refs == nil {
		return false
	}
	for _, ref := range *refs {
		call, ok := ref.(*ssa.Call)
		if !ok {
			continue
		}
		if a.cfg.NegGuardCall != nil && len(call.Common().Args) > 0 && call.Common().Args[0] == v && a.cfg.NegGuardCall(call.Common()) {
			if cr := call.Referrers(); cr != nil {
				for _, u := range *cr {
					if iff, ok := u.(*ssa.If); ok {
						t := iff.Block().Succs[1]
						if len(t.Preds) == 1 && (t == b || t.Dominates(b)) {
							return true
						}
					}
				}
			}
		}
		if !a.cfg.Guards[core.CalleeName(call.Common())] {
			continue
		}
		cr := call.Referrers()
		if cr == nil {
			continue
		}
		for _, u := range *cr {
			switch y := u.(type) {
			case *ssa.If:
				t := y.Block().Succs[0]
				if len(t.Preds) == 1 && (t == b || t.Dominates(b)) {
					return true
				}
			case *ssa.BinOp:
				// `ok && guard(v)` folded into a phi/if chain is not recognised
				_ = y
			}
		}
	}
	return false
}

func constString(v ssa.Value) (string, bool) {
	c, ok := v.(*ssa.Const)
	if !ok || c.Value == nil || c.Value.Kind() != constant.String {
		return "", false
	}
	return constant.StringVal(c.Value), true
}

// sprintfFact: fmt.Sprintf-like call with a constant format: tainted operands must be consumed by %q.
func (a *Analysis) sprintfFact(call ssa.CallInstruction, fmtIdx int) (*Fact, bool) {
	args := call.Common().Args
	if fmtIdx >= len(args) {
		return nil, false
	}
	format, ok := constString(args[fmtIdx])
	if !ok {
		return nil, false
	}
	// variadic operands are packed into a slice: find the stores into it
	var operands []ssa.Value
	if fmtIdx+1 < len(args) {
		operands = variadicElems(args[fmtIdx+1])
		if operands == nil {
			return nil, false
		}
	}
	verbs := parseVerbs(format)
	for i, op := range operands {
		f := a.Val[op]
		if f == nil || a.guardedClean(op, call.Block()) {
			continue
		}
		if i < len(verbs) && (verbs[i] == 'q' || verbs[i] == 'V' || verbs[i] == 'd' || verbs[i] == 't' || verbs[i] == 'T' || verbs[i] == 'p') {
			continue
		}
		return &Fact{Pos: call.Pos(), What: fmt.Sprintf("formatted with %%%c by %s", verbAt(verbs, i), core.CalleeName(call.Common())), Parent: f}, true
	}
	return nil, true
}

func verbAt(v []byte, i int) byte {
	if i < len(v) {
		return v[i]
	}
	return '?'
}

// parseVerbs lists the verbs of a format; %#v (Go syntax: strings come out quoted) is reported as 'V'.
func parseVerbs(format string) []byte {
	var out []byte
	for i := 0; i < len(format); i++ {
		if format[i] != '%' {
			continue
		}
		i++
		sharp := false
		for i < len(format) && strings.IndexByte("+-# 0123456789.*[]", format[i]) >= 0 {
			if format[i] == '#' {
				sharp = true
			}
			i++
		}
		if i < len(format) && format[i] != '%' {
			v := format[i]
			if sharp && v == 'v' {
				v = 'V'
			}
			out = append(out, v)
		}
	}
	return out
}

// ParseVerbs is parseVerbs for other packages.
func ParseVerbs(format string) []byte { return parseVerbs(format) }

// variadicElems returns the operands stored into the slice literal built for a variadic call.
func variadicElems(v ssa.Value) []ssa.Value {
	if c, ok := v.(*ssa.Const); ok && c.Value == nil {
		return []ssa.Value{}
	}
	sl, ok := v.(*ssa.Slice)
	if !ok {
		return nil
	}
	al, ok := sl.X.(*ssa.Alloc)
	if !ok {
		return nil
	}
	arr, ok := al.Type().(*types.Pointer).Elem().Underlying().(*types.Array)
	if !ok {
		return nil
	}
	out := make([]ssa.Value, arr.Len())
	for _, ref := range *al.Referrers() {
		ia, ok := ref.(*ssa.IndexAddr)
		if !ok {
			continue
		}
		idx, ok := ia.Index.(*ssa.Const)
		if !ok {
			return nil
		}
		i, _ := constant.Int64Val(idx.Value)
		for _, r2 := range *ia.Referrers() {
			if st, ok := r2.(*ssa.Store); ok {
				val := st.Val
				if mi, ok := val.(*ssa.MakeInterface); ok {
					val = mi.X
				}
				if int(i) < len(out) {
					out[i] = val
				}
			}
		}
	}
	for _, o := range out {
		if o == nil {
			return nil
		}
	}
	return out
}

func (a *Analysis) function(fn *ssa.Function) {
	for _, b := range fn.Blocks {
		for _, in := range b.Instrs {
			a.instr(fn, b, in)
		}
	}
}

func (a *Analysis) anyArg(args []ssa.Value) *Fact {
	for _, x := range args {
		if f := a.Val[x]; f != nil {
			return f
		}
		if f := a.Key[x]; f != nil {
			return f
		}
	}
	return nil
}

func (a *Analysis) instr(fn *ssa.Function, b *ssa.BasicBlock, in ssa.Instruction) {
	pos := core.InstrPos(in)
	prop := func(v ssa.Value, from ssa.Value, what string) {
		if f := a.Val[from]; f != nil {
			if a.guardedClean(from, b) {
				return
			}
			if what == "" {
				a.taintVal(v, f)
			} else {
				a.taintVal(v, &Fact{Pos: pos, What: what, Parent: f})
			}
		}
	}
	switch x := in.(type) {
	case *ssa.UnOp:
		if x.Op == token.MUL {
			if f := a.addrFact(x.X, pos); f != nil {
				a.taintVal(x, f)
			}
			if f := a.addrKeyFact(x.X); f != nil {
				if _, ok := a.Key[x]; !ok {
					a.Key[x] = f
					a.changed = true
				}
			}
			// a map read out of the document model: its keys are document text as much as its elements
			if _, isMap := x.Type().Underlying().(*types.Map); isMap {
				if fa, ok := x.X.(*ssa.FieldAddr); ok {
					st := derefStruct(fa.X.Type())
					if sst, ok := st.Underlying().(*types.Struct); ok {
						if src, name := a.SourceField(st, sst.Field(fa.Field)); src {
							if _, ok := a.Key[x]; !ok {
								a.Key[x] = &Fact{Pos: pos, What: "document text (map keys): " + name}
								a.changed = true
							}
						}
					}
				}
			}
		} else {
			prop(x, x.X, "")
		}
	case *ssa.Field:
		if f := a.fieldFact(x.X, x.Field, pos); f != nil {
			a.taintVal(x, f)
		}
	case *ssa.Index:
		prop(x, x.X, "")
	case *ssa.Lookup:
		prop(x, x.X, "")
	case *ssa.Slice:
		prop(x, x.X, "")
	case *ssa.Convert:
		if carriesString(x.Type(), 0) || carriesString(x.X.Type(), 0) {
			if bt, ok := x.X.Type().Underlying().(*types.Basic); ok && bt.Info()&types.IsNumeric != 0 {
				return
			}
			prop(x, x.X, "")
		}
	case *ssa.ChangeType:
		prop(x, x.X, "")
		if f := a.Key[x.X]; f != nil {
			if _, ok := a.Key[x]; !ok {
				a.Key[x] = f
				a.changed = true
			}
		}
	case *ssa.ChangeInterface:
		prop(x, x.X, "")
	case *ssa.MakeInterface:
		prop(x, x.X, "")
	case *ssa.TypeAssert:
		prop(x, x.X, "")
	case *ssa.Phi:
		for _, e := range x.Edges {
			prop(x, e, "")
			if f := a.Key[e]; f != nil {
				if _, ok := a.Key[x]; !ok {
					a.Key[x] = f
					a.changed = true
				}
			}
		}
	case *ssa.BinOp:
		if x.Op == token.ADD {
			if bt, ok := x.Type().Underlying().(*types.Basic); ok && bt.Info()&types.IsString != 0 {
				prop(x, x.X, "")
				prop(x, x.Y, "")
			}
		}
	case *ssa.Range:
		prop(x, x.X, "")
		if f := a.Key[x.X]; f != nil && a.Key[x] == nil {
			a.Key[x] = f
			a.changed = true
		}
	case *ssa.Next:
		prop(x, x.Iter, "")
		if f := a.Key[x.Iter]; f != nil && a.Key[x] == nil {
			a.Key[x] = f
			a.changed = true
		}
	case *ssa.Extract:
		if call, ok := x.Tuple.(*ssa.Call); ok {
			a.callResult(fn, b, call, x, x.Index)
			return
		}
		if nx, ok := x.Tuple.(*ssa.Next); ok && !nx.IsString {
			if rg, ok := nx.Iter.(*ssa.Range); ok {
				if _, isMap := rg.X.Type().Underlying().(*types.Map); isMap {
					switch x.Index {
					case 1:
						if f := a.Key[x.Tuple]; f != nil {
							a.taintVal(x, f)
						}
					case 2:
						prop(x, x.Tuple, "")
					}
					return
				}
			}
		}
		// range over a string yields runes: characters of the text
		prop(x, x.Tuple, "")
	case *ssa.Store:
		if f := a.Key[x.Val]; f != nil {
			a.taintAddrKey(x.Addr, f, 0)
		}
		if f := a.Val[x.Val]; f != nil {
			if a.guardedClean(x.Val, b) {
				return
			}
			a.taintAddr(x.Addr, f, 0)
		}
	case *ssa.MapUpdate:
		if f := a.Val[x.Key]; f != nil && carriesString(x.Key.Type(), 0) {
			a.taintKey(x.Map, f, 0)
		}
		if f := a.Val[x.Value]; f != nil {
			a.taintContainer(x.Map, f, 0)
		}
	case *ssa.MakeClosure:
		g, _ := x.Fn.(*ssa.Function)
		if g == nil {
			return
		}
		for i, bnd := range x.Bindings {
			// the free variable aliases the captured variable: share the fact both ways
			if i >= len(g.FreeVars) {
				continue
			}
			fv := g.FreeVars[i]
			if f := a.Val[bnd]; f != nil {
				a.taintVal(fv, f)
			}
			if f := a.Val[fv]; f != nil {
				a.taintVal(bnd, f)
			}
			if f := a.Key[bnd]; f != nil && a.Key[fv] == nil {
				a.Key[fv] = f
				a.changed = true
			}
			if f := a.Key[fv]; f != nil && a.Key[bnd] == nil {
				a.Key[bnd] = f
				a.changed = true
			}
		}
	case *ssa.Return:
		for i, r := range x.Results {
			if f := a.Key[r]; f != nil {
				m := a.RetKey[fn]
				if m == nil {
					m = map[int]*Fact{}
					a.RetKey[fn] = m
				}
				if _, ok := m[i]; !ok {
					m[i] = f
					a.changed = true
				}
			}
			if f := a.Val[r]; f != nil {
				if a.guardedClean(r, b) {
					continue
				}
				if k, viaParam := paramOrigin(f, fn); viaParam {
					m := a.RetFromParam[fn]
					if m == nil {
						m = map[int]map[int]bool{}
						a.RetFromParam[fn] = m
					}
					if m[i] == nil {
						m[i] = map[int]bool{}
					}
					if !m[i][k] {
						m[i][k] = true
						a.changed = true
					}
					continue
				}
				if syntheticRoot(f) {
					continue
				}
				a.taintRet(fn, i, f)
			}
		}
	case *ssa.Call:
		a.call(fn, b, x)
	case *ssa.Go:
		a.call(fn, b, x)
	case *ssa.Defer:
		a.call(fn, b, x)
	}
}

// callees resolves a call through the CHA graph (module callees only), or the static callee.
func (a *Analysis) callees(fn *ssa.Function, call ssa.CallInstruction) []*ssa.Function {
	if c := call.Common().StaticCallee(); c != nil {
		return []*ssa.Function{c}
	}
	var out []*ssa.Function
	if n := a.cg.Nodes[fn]; n != nil {
		for _, e := range n.Out {
			if e.Site == call && e.Callee.Func != nil {
				out = append(out, e.Callee.Func)
			}
		}
	}
	return out
}

func (a *Analysis) call(fn *ssa.Function, b *ssa.BasicBlock, call ssa.CallInstruction) {
	cc := call.Common()
	// builtins
	if bi, ok := cc.Value.(*ssa.Builtin); ok {
		v, _ := call.(ssa.Value)
		switch bi.Name() {
		case "append":
			if v != nil {
				for _, x := range cc.Args {
					if f := a.Val[x]; f != nil {
						a.taintVal(v, f)
					}
				}
			}
		case "copy":
			if f := a.Val[cc.Args[1]]; f != nil {
				a.taintContainer(cc.Args[0], f, 0)
			}
		case "min", "max":
			if v != nil {
				if f := a.anyArg(cc.Args); f != nil {
					a.taintVal(v, f)
				}
			}
		}
		return
	}
	callees := a.callees(fn, call)
	args := cc.Args
	for _, callee := range callees {
		if callee.Blocks == nil || !a.cfg.InScope(callee) || a.cfg.NoParamTaint[callee] {
			continue
		}
		params := callee.Params
		offset := 0
		if cc.IsInvoke() {
			// receiver is cc.Value
			if len(params) > 0 {
				if f := a.Val[cc.Value]; f != nil {
					a.taintVal(params[0], &Fact{Pos: call.Pos(), What: "receiver of " + core.FuncName(callee), Parent: f, ParamOf: callee, ParamIdx: 0})
				}
			}
			offset = 1
		}
		for i, x := range args {
			if i+offset >= len(params) {
				break
			}
			if f := a.Key[x]; f != nil {
				if _, ok := a.Key[params[i+offset]]; !ok {
					a.Key[params[i+offset]] = f
					a.changed = true
				}
			}
			if f := a.Val[x]; f != nil {
				if a.guardedClean(x, b) {
					continue
				}
				a.taintVal(params[i+offset], &Fact{Pos: call.Pos(), What: "passed to " + core.FuncName(callee), Parent: f, ParamOf: callee, ParamIdx: i + offset})
			}
		}
	}
	external := len(callees) == 0
	for _, callee := range callees {
		if callee.Blocks == nil || !a.cfg.InScope(callee) {
			external = true
		}
	}
	if external && !a.cfg.Sanitisers[core.CalleeName(cc)] {
		// an external function handed tainted data and a pointer (yaml.Node.Decode(&x), json.Unmarshal(b, &x)): the pointee may receive the text
		var f *Fact
		if cc.IsInvoke() {
			f = a.Val[cc.Value]
		}
		if f == nil {
			f = a.anyArg(args)
		}
		if f != nil {
			start := 0
			if !cc.IsInvoke() && cc.Signature().Recv() != nil {
				start = 1
			}
			for _, x := range args[min(start, len(args)):] {
				if a.Val[x] != nil {
					continue
				}
				v := x
				if mi, ok := v.(*ssa.MakeInterface); ok {
					v = mi.X
				}
				if _, isPtr := v.Type().Underlying().(*types.Pointer); isPtr {
					a.taintAddr(v, &Fact{Pos: call.Pos(), What: "filled by " + core.CalleeName(cc), Parent: f}, 0)
				}
			}
		}
	}
	if external && !cc.IsInvoke() && cc.Signature().Recv() != nil && len(args) > 1 && !a.cfg.Sanitisers[core.CalleeName(cc)] {
		// a mutating method of an external type (strings.Builder.WriteString, bytes.Buffer.Write…): the receiver now holds the text
		if _, isPtr := args[0].Type().Underlying().(*types.Pointer); isPtr {
			if f := a.anyArg(args[1:]); f != nil {
				a.taintVal(args[0], &Fact{Pos: call.Pos(), What: "written into " + types.TypeString(args[0].Type(), nil), Parent: f})
			}
		}
	}
	if v, ok := call.(*ssa.Call); ok {
		if _, isTuple := v.Type().(*types.Tuple); !isTuple {
			a.callResult(fn, b, v, v, 0)
		}
	}
}

// callResult taints the value `into` (the call itself or an Extract of it) from result #idx.
func (a *Analysis) callResult(fn *ssa.Function, b *ssa.BasicBlock, call *ssa.Call, into ssa.Value, idx int) {
	cc := call.Common()
	if _, ok := cc.Value.(*ssa.Builtin); ok {
		return
	}
	name := core.CalleeName(cc)
	if a.cfg.Sanitisers[name] || (a.cfg.SanitiserCall != nil && a.cfg.SanitiserCall(cc)) {
		return
	}
	callees := a.callees(fn, call)
	external := len(callees) == 0
	for _, callee := range callees {
		if a.cfg.SourceFuncs[core.FuncName(callee)] && idx == 0 {
			a.Sources++
			a.taintVal(into, &Fact{Pos: call.Pos(), What: "text that is not an identifier in general: result of " + core.FuncName(callee)})
			continue
		}
		if callee.Blocks == nil || !a.cfg.InScope(callee) {
			external = true
			continue
		}
		if f := a.Ret[callee][idx]; f != nil {
			a.taintVal(into, &Fact{Pos: call.Pos(), What: "result of " + core.FuncName(callee), Parent: f})
		}
		if f := a.RetKey[callee][idx]; f != nil {
			if _, ok := a.Key[into]; !ok {
				a.Key[into] = f
				a.changed = true
			}
		}
		for k := range a.RetFromParam[callee][idx] {
			var arg ssa.Value
			if cc.IsInvoke() {
				if k == 0 {
					arg = cc.Value
				} else if k-1 < len(cc.Args) {
					arg = cc.Args[k-1]
				}
			} else if k < len(cc.Args) {
				arg = cc.Args[k]
			}
			if arg == nil {
				continue
			}
			if f := a.Val[arg]; f != nil && !a.guardedClean(arg, b) {
				a.taintVal(into, &Fact{Pos: call.Pos(), What: fmt.Sprintf("through %s (parameter %d reaches the result)", core.FuncName(callee), k), Parent: f})
			}
		}
	}
	if !external {
		return
	}
	if !carriesString(into.Type(), 0) {
		if _, isIface := into.Type().Underlying().(*types.Interface); !isIface {
			return
		}
	}
	// formatted output with a constant format
	switch name {
	case "fmt.Sprintf", "fmt.Errorf", "github.com/go-faster/errors.Errorf", "errors.Errorf":
		if f, decided := a.sprintfFact(call, 0); decided {
			if f != nil {
				a.taintVal(into, f)
			}
			return
		}
	case "fmt.Sprint", "fmt.Sprintln":
		if len(cc.Args) == 1 {
			if ops := variadicElems(cc.Args[0]); ops != nil {
				for _, op := range ops {
					if f := a.Val[op]; f != nil {
						a.taintVal(into, &Fact{Pos: call.Pos(), What: "printed by " + name, Parent: f})
					}
				}
				return
			}
		}
	}
	// any other external function: the result may contain its arguments' text
	var f *Fact
	if cc.IsInvoke() {
		f = a.Val[cc.Value]
	}
	if f == nil {
		f = a.anyArg(cc.Args)
	}
	if f == nil {
		// variadic operands
		for _, x := range cc.Args {
			if ops := variadicElems(x); ops != nil {
				if g := a.anyArg(ops); g != nil {
					f = g
				}
			}
		}
	}
	if f != nil {
		a.taintVal(into, &Fact{Pos: call.Pos(), What: "through " + name, Parent: f})
		// a mutating method of an external type (strings.Builder.WriteString): the receiver now holds the text
		if !cc.IsInvoke() && len(cc.Args) > 0 && cc.Signature().Recv() != nil {
			if _, isPtr := cc.Args[0].Type().Underlying().(*types.Pointer); isPtr {
				a.taintVal(cc.Args[0], f)
			}
		}
	} else if !cc.IsInvoke() && len(cc.Args) > 0 && cc.Signature().Recv() != nil {
		// result of a method on a tainted external receiver (Builder.String) is handled by anyArg above
	}
}

// RetFact returns why result #i of fn may carry document text (nil if clean).
func (a *Analysis) RetFact(fn *ssa.Function, i int) *Fact {
	return a.Ret[fn][i]
}
