// Command ogenverif decides the structural part of one property of
// ogen-go/ogen from the current source of /repo. No code of /repo is executed
// except, for S2 rules, cmd/ogen as a macro-expansion step (see DESIGN.md §0).
package main

import (
	"flag"
	"fmt"
	"os"
	"runtime/debug"
	"strconv"
	"time"

	"ogenverif/internal/core"
	"ogenverif/internal/rules"
)

func main() {
	var (
		prop  = flag.String("property", "", "property id (C01…C20)")
		tier  = flag.String("tier", "quick", "quick | thorough")
		repo  = flag.String("repo", "/repo", "path of the ogen working tree")
		verif = flag.String("verif", "/verif", "path of the verification directory")
		list  = flag.Bool("list", false, "list implemented properties")
	)
	flag.Parse()
	if *list {
		for _, id := range rules.IDs() {
			fmt.Println(id)
		}
		return
	}
	if t := os.Getenv("VERIF_TIER"); t != "" && *tier == "" {
		*tier = t
	}
	p := rules.Get(*prop)
	if p == nil {
		fmt.Fprintf(os.Stderr, "unknown property %q\n", *prop)
		os.Exit(2)
	}
	ctx := core.NewCtx(*repo, *verif, *tier, *prop)
	if s := os.Getenv("VERIF_SEED"); s != "" {
		ctx.Seed, _ = strconv.ParseInt(s, 10, 64) // accepted, unused: nothing is random
	}
	start := time.Now()
	var fatal error
	func() {
		defer func() {
			if r := recover(); r != nil {
				fatal = fmt.Errorf("analysis panic: %v\n%s", r, debug.Stack())
			}
		}()
		fatal = p.Run(ctx)
	}()
	code := ctx.Finish(p.Meta, start, fatal)
	ctx.Cleanup()
	os.Exit(code)
}
